#!/bin/bash
# Builds nothing that a check depends on for correctness; only warms a dependency cache (pure optimisation).
# Runs offline from files on disk.
set -u
cd "$(dirname "$0")"
mkdir -p .cache evidence replays
python3 -m py_compile vlib/*.py || exit 1
if [ "${VERIF_NO_CACHE:-}" = "" ]; then
  python3 -m vlib.cache || echo "cache warm-up failed (checks still work, slower)" >&2
fi
exit 0
