import sys, pathlib
sys.path.insert(0, str(pathlib.Path(__file__).resolve().parent.parent))
from vlib.vextract import VUnit, Fn, Const, Raw, Rw, Enum, Block, Struct

PRE = r'''
global size_of usize == 8;
// ---------------------------------------------------------------------------------------------------------------------
// The SEQUENTIAL core of output capture.  Two reader threads run read_captured_stream concurrently and share one AtomicU8 `overflow`
// (0 = no stream over its cap; 1/2 = the stream that overflowed FIRST).  The only writes to it anywhere are
// compare_exchange(0, code): once non-zero it never changes.  Each contract below is stated so that it holds for the calling thread
// whatever the other thread does in between (the flag model only promises what that monotonicity gives).
// ---------------------------------------------------------------------------------------------------------------------
pub struct IoError { pub g: Ghost<int> }
#[verifier::external_body]
pub struct Reader { _p: u8 }
impl Reader {
    pub uninterp spec fn rest(&self) -> Seq<u8>;
    // std::io::Read::read (documented contract): any number of bytes from 1 to min(buf.len(), rest.len()); 0 only at end of input
    #[verifier::external_body]
    pub fn read(&mut self, buf: &mut Vec<u8>) -> (r: Result<usize, IoError>)
        requires old(buf)@.len() > 0,
        ensures final(buf)@.len() == old(buf)@.len(),
                r is Err ==> final(self).rest() == old(self).rest(),
                r is Ok ==> r->Ok_0 <= old(buf)@.len() && r->Ok_0 <= old(self).rest().len()
                            && (r->Ok_0 == 0 <==> old(self).rest().len() == 0)
                            && final(buf)@.subrange(0, r->Ok_0 as int) == old(self).rest().subrange(0, r->Ok_0 as int)
                            && final(self).rest() == old(self).rest().skip(r->Ok_0 as int),
    { unimplemented!() }
}
// the shared flag, as one thread sees it: `seen` is a value it has observed or written; the real value may since have changed from 0
pub struct Flag { pub v: Ghost<u8> }
impl Flag {
    // a later load by a thread that is not the writer: the flag may have been set in between, never cleared or changed
    #[verifier::external_body]
    pub fn load_later(&mut self) -> (r: u8) ensures r == final(self).v@, old(self).v@ != 0 ==> final(self).v@ == old(self).v@ { unimplemented!() }
    // overflow.compare_exchange(0, code, SeqCst, SeqCst): afterwards the flag is non-zero (ours if it was 0, else the earlier one)
    #[verifier::external_body]
    pub fn set_if_clear(&mut self, code: u8)
        requires code != 0
        ensures final(self).v@ != 0, old(self).v@ != 0 ==> final(self).v@ == old(self).v@, old(self).v@ == 0 ==> final(self).v@ == code
    { unimplemented!() }
    // overflow.load(Acquire)
    #[verifier::external_body]
    pub fn load(&self) -> (r: u8) ensures r == self.v@ { unimplemented!() }
}
#[verifier::external_body]
fn prefix(a: &Vec<u8>, j: usize) -> (r: &[u8]) requires j <= a@.len(), ensures r@ == a@.subrange(0, j as int), { &a[..j] }
#[verifier::external_body]
fn extend_from_slice(v: &mut Vec<u8>, s: &[u8]) ensures final(v)@ == old(v)@ + s@, { v.extend_from_slice(s) }
// `[0u8; N]` / `vec![0u8; N]`: N zero bytes
#[verifier::external_body]
fn zeroed(n: usize) -> (r: Vec<u8>) ensures r@.len() == n { unimplemented!() }
#[verifier::external_body]
fn min_usize(a: usize, b: usize) -> (r: usize) ensures r == (if a <= b { a } else { b }) { a.min(b) }
#[verifier::external_body]
fn saturating_add(a: usize, b: usize) -> (r: usize) ensures r == (if a + b > usize::MAX { usize::MAX as int } else { a + b }) { a.saturating_add(b) }
'''

MODEL = r'''
pub enum ProcessError { SpawnFailed(IoError), Timeout, OutputLimitExceeded(ProcessStream), InvalidUtf8(ProcessStream) }
// a capture thread's JoinHandle: what the thread returned
pub struct Handle { pub out: Ghost<Result<Seq<u8>, int>> }
impl Handle {
    // `handle.join().expect("capture reader thread should not panic").map_err(ProcessError::SpawnFailed)`
    #[verifier::external_body]
    pub fn join_result(self) -> (r: Result<Vec<u8>, ProcessError>)
        ensures self.out@ is Ok ==> r is Ok && r->Ok_0@ == self.out@->Ok_0, self.out@ is Err ==> r is Err && r->Err_0 is SpawnFailed
    { unimplemented!() }
}
pub uninterp spec fn valid_utf8(b: Seq<u8>) -> bool;
pub struct Text { pub bytes: Vec<u8> }
// `String::from_utf8(bytes).map_err(|_| ProcessError::InvalidUtf8(stream))` then `ArenaString::from_str(arena, &text)` (same bytes)
#[verifier::external_body]
fn text_from_utf8(bytes: Vec<u8>, stream: ProcessStream) -> (r: Result<Text, ProcessError>)
    ensures valid_utf8(bytes@) ==> r is Ok && r->Ok_0.bytes@ == bytes@, !valid_utf8(bytes@) ==> r == Err::<Text, ProcessError>(ProcessError::InvalidUtf8(stream))
{ unimplemented!() }
// the child process and the clock, as wait_for_child uses them
pub struct ChildM { pub terminated: Ghost<bool> }
pub struct Status { pub g: Ghost<int> }
impl ChildM {
    // child.try_wait().map_err(ProcessError::SpawnFailed)
    #[verifier::external_body]
    pub fn try_wait(&mut self) -> (r: Result<Option<Status>, ProcessError>) ensures final(self).terminated@ == old(self).terminated@, r is Err ==> r->Err_0 is SpawnFailed { unimplemented!() }
}
// terminate_child(child): kill, then wait (reaps it)
#[verifier::external_body]
fn terminate_child(child: &mut ChildM) ensures final(child).terminated@ { unimplemented!() }
pub struct Clock { pub g: Ghost<int> }
impl Clock {
    #[verifier::external_body]
    pub fn timed_out(&self) -> (r: bool) { unimplemented!() }      // start.elapsed() >= timeout
    #[verifier::external_body]
    pub fn sleep(&self) { unimplemented!() }                       // thread::sleep(sleep_for)
}
pub open spec fn code_of(s: ProcessStream) -> u8 { match s { ProcessStream::Stdout => 1, ProcessStream::Stderr => 2 } }
'''

UNIT = VUnit(
    name="capture",
    props=["C16"],
    source="src/sys/process_common.rs",
    preamble=PRE,
    trusted=["std::io::Read and the AtomicU8 are the models in the unit text (Read: documented contract; the flag: compare_exchange(0, code) is its only writer, so it never returns to 0)",
             "thread spawning/joining, Child::try_wait/kill/wait and Instant are outside the unit: what is decided is what each sequential function does between those calls",
             "partial correctness for the read loop"],
    items=[
        Enum("ProcessStream", source="src/process.rs", derive="#[derive(Clone, Copy)]", eq=True),
        Raw(MODEL),
        Fn("stream_code", sig="fn stream_code(stream: ProcessStream) -> (r: u8)", expect_sig=r"const fn stream_code\(stream: ProcessStream\) -> u8",
           ensures=["r == code_of(stream)", "r != 0"], vacuity="-", real_name="process_common::stream_code"),
        Fn("stream_from_code", sig="fn stream_from_code(code: u8) -> (r: ProcessStream)", expect_sig=r"const fn stream_from_code\(code: u8\) -> ProcessStream",
           ensures=["forall|s: ProcessStream| code == code_of(s) ==> r == s"], vacuity="-", real_name="process_common::stream_from_code"),
        # one capture thread: what it returns is everything the child wrote to this stream -- for every way the pipe splits it into reads --
        # unless that is more than the cap, and then the shared flag is non-zero afterwards (this stream's code if no stream overflowed
        # earlier), so a truncated buffer never goes unflagged; it never holds more than the cap
        Fn("read_captured_stream",
           sig="#[verifier::exec_allows_no_decreases_clause]\nfn read_captured_stream(reader: &mut Reader, cap: u32, overflow_code: u8, overflow: &mut Flag, Ghost(total): Ghost<Seq<u8>>) -> (res: Result<Vec<u8>, IoError>)",
           expect_sig=r"fn read_captured_stream<R: Read>\(\s*mut reader: R,\s*cap: u32,\s*overflow_code: u8,\s*overflow: &Arc<AtomicU8>,?\s*\) -> io::Result<std::vec::Vec<u8>>",
           requires=["old(reader).rest() == total", "overflow_code != 0"],
           ensures=["res is Ok ==> res->Ok_0@.is_prefix_of(total) && res->Ok_0@.len() <= cap",
                    "res is Ok && total.len() <= cap ==> res->Ok_0@ =~= total && final(overflow).v@ == old(overflow).v@",
                    "res is Ok && res->Ok_0@.len() < total.len() ==> final(overflow).v@ != 0 && (old(overflow).v@ == 0 ==> final(overflow).v@ == overflow_code)"],
           loops={1: {"invariant_except_break": ["buf@ + reader.rest() =~= total", "overflow.v@ == old(overflow).v@"],
                      "invariant": ["chunk@.len() > 0", "max == cap as usize", "buf@.len() <= cap", "overflow_code != 0", "buf@.is_prefix_of(total)"],
                      "ensures": ["buf@.len() < total.len() ==> overflow.v@ != 0 && (old(overflow).v@ == 0 ==> overflow.v@ == overflow_code)",
                                  "total.len() <= cap ==> buf@ =~= total && overflow.v@ == old(overflow).v@"]}},
           rewrites=[Rw("R8", r"let mut buf = std::vec::Vec::with_capacity\([^;]*\);", "let mut buf: Vec<u8> = Vec::new();", min_matches=1),   # capacity is a hint
                     # the read buffer, however it is sized: the Read model requires it to be non-empty (an empty buffer makes read return
                     # Ok(0), which the loop would take for end of input)
                     Rw("R8", r"let mut chunk = \[0u8; ([^\]]+)\];", r"let mut chunk: Vec<u8> = zeroed(\1);", min_matches=0),
                     Rw("R8", r"let mut chunk = vec!\[0u8; ([^\]]+)\];", r"let mut chunk: Vec<u8> = zeroed(\1);", min_matches=0),
                     Rw("R5", r"\b(\w+)\.min\(([^()]*)\)", r"min_usize(\1, \2)", min_matches=0),
                     Rw("R5", r"buf\.len\(\)\.saturating_add\(n\)", "saturating_add(buf.len(), n)", min_matches=1),
                     Rw("R2", r"let _ = overflow\.compare_exchange\(0, overflow_code, Ordering::SeqCst, Ordering::SeqCst\);", "overflow.set_if_clear(overflow_code);", min_matches=1),
                     Rw("R5", r"buf\.extend_from_slice\(&chunk\[\.\.n\]\)", "extend_from_slice(&mut buf, prefix(&chunk, n))", min_matches=1)],
           vacuity="-", real_name="process_common::read_captured_stream"),
        # joining one capture: not captured -> null; the reader failed -> error; this stream is the one flagged as over its cap -> the
        # OutputLimitExceeded error for it; bytes that are not UTF-8 -> InvalidUtf8; otherwise exactly the bytes the thread collected
        Fn("join_capture",
           sig="fn join_capture(reader: Option<Handle>, stream: ProcessStream, overflow: &Flag) -> (res: Result<Option<Text>, ProcessError>)",
           expect_sig=r"fn join_capture<'arena>\(\s*reader: Option<JoinHandle<io::Result<std::vec::Vec<u8>>>>,\s*stream: ProcessStream,\s*overflow: &AtomicU8,\s*arena: &'arena Arena,?\s*\) -> Result<Option<ArenaString<'arena>>, ProcessError>",
           ensures=["reader is None ==> res == Ok::<Option<Text>, ProcessError>(None)",
                    "reader is Some && reader->Some_0.out@ is Err ==> res is Err && res->Err_0 is SpawnFailed",
                    "reader is Some && reader->Some_0.out@ is Ok && overflow.v@ == code_of(stream) ==> res == Err::<Option<Text>, ProcessError>(ProcessError::OutputLimitExceeded(stream))",
                    "reader is Some && reader->Some_0.out@ is Ok && overflow.v@ != code_of(stream) && !valid_utf8(reader->Some_0.out@->Ok_0) ==> res == Err::<Option<Text>, ProcessError>(ProcessError::InvalidUtf8(stream))",
                    "reader is Some && reader->Some_0.out@ is Ok && overflow.v@ != code_of(stream) && valid_utf8(reader->Some_0.out@->Ok_0) ==> res is Ok && res->Ok_0 is Some && res->Ok_0->Some_0.bytes@ == reader->Some_0.out@->Ok_0"],
           rewrites=[Rw("R9", r"handle\s*\.join\(\)\s*\.expect\(\"capture reader thread should not panic\"\)\s*\.map_err\(ProcessError::SpawnFailed\)\?", "handle.join_result()?", min_matches=1),
                     Rw("R2", r"overflow\.load\(Ordering::Acquire\)", "overflow.load()", min_matches=1),
                     Rw("R9", r"let text = String::from_utf8\(bytes\)\.map_err\(\|_\| ProcessError::InvalidUtf8\(stream\)\)\?;", "let text = text_from_utf8(bytes, stream)?;", min_matches=1),
                     Rw("R8", r"Ok\(Some\(ArenaString::from_str\(arena, &text\)\)\)", "Ok(Some(text))", min_matches=1)],
           vacuity="-", real_name="process_common::join_capture"),
        # the poll loop: a raised overflow flag or an expired timeout ends in the matching error WITH the child killed and reaped first;
        # Ok(status) only comes from try_wait (the child has exited)
        Fn("wait_for_child",
           sig="#[verifier::exec_allows_no_decreases_clause]\nfn wait_for_child(child: &mut ChildM, clock: &Clock, overflow: &mut Flag) -> (res: Result<Status, ProcessError>)",
           expect_sig=r"fn wait_for_child\(\s*child: &mut Child,\s*wait_poll_ms: u32,\s*timeout_ms: u32,\s*overflow: &AtomicU8,?\s*\) -> Result<std::process::ExitStatus, ProcessError>",
           ensures=["res is Err && (res->Err_0 is OutputLimitExceeded || res->Err_0 is Timeout) ==> final(child).terminated@",
                    "res is Err && res->Err_0 is OutputLimitExceeded ==> final(overflow).v@ != 0 && (forall|s: ProcessStream| final(overflow).v@ == code_of(s) ==> res->Err_0->OutputLimitExceeded_0 == s)",
                    "res is Ok ==> final(child).terminated@ == old(child).terminated@"],
           loops={1: {"invariant": ["child.terminated@ == old(child).terminated@"]}},
           rewrites=[Rw("R13", r"let start = Instant::now\(\);\s*let sleep_for = Duration::from_millis\(u64::from\(wait_poll_ms\.max\(1\)\)\);\s*let timeout = Duration::from_millis\(u64::from\(timeout_ms\)\);", "", min_matches=1),
                     Rw("R2", r"overflow\.load\(Ordering::Acquire\)", "overflow.load_later()", min_matches=1),
                     Rw("R9", r"child\.try_wait\(\)\.map_err\(ProcessError::SpawnFailed\)\?", "child.try_wait()?", min_matches=1),
                     Rw("R9", r"start\.elapsed\(\) >= timeout", "clock.timed_out()", min_matches=1),
                     Rw("R9", r"thread::sleep\(sleep_for\);", "clock.sleep();", min_matches=1)],
           vacuity="-", real_name="process_common::wait_for_child"),
    ],
)
