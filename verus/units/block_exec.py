import sys, pathlib
sys.path.insert(0, str(pathlib.Path(__file__).resolve().parent.parent))
from vlib.vextract import VUnit, Fn, Const, Raw, Rw, Enum, Block, Struct

PRE = r'''
pub struct ValueH { pub g: Ghost<int> }
#[derive(Clone, Copy)] pub struct StmtH { pub id: Ghost<int> }
pub struct BlockH { pub stmts: Vec<StmtH> }
pub struct RtErr { pub g: Ghost<int> }
#[verifier::external_body] fn null_value() -> (r: ValueH) { unimplemented!() }
#[verifier::external_body] fn type_mismatch() -> (r: RtErr) { unimplemented!() }
'''

MODEL = r'''
// Ghost record of one block execution: the scope-stack depth, and which statements were executed
pub struct Rt { pub depth: Ghost<nat>, pub executed: Ghost<Set<int>>, pub hoisted: Ghost<bool>, pub frame_resets: Ghost<nat>,
                // the activation marks (function id, index of its parameter scope), oldest first: Runtime::activations
                pub acts: Ghost<Seq<(u32, nat)>> }
// --- jasi: the frame mark of an iteration
pub struct CondH { pub g: Ghost<int> }
pub enum CondV { Bool(bool), Null, Other }
pub struct Lp { pub has_frame: bool, pub mark: Ghost<Set<usize>>, pub resets: Ghost<nat>, pub bodies: Ghost<nat>, pub conds: Ghost<nat>, pub resets_at_body_end: Ghost<nat> }
impl Lp {
    // self.eval_expr(cond): the condition is evaluated once per round, before the body
    #[verifier::external_body]
    pub fn eval_cond(&mut self, c: &CondH) -> (r: Result<CondV, RtErr>)
        ensures final(self).conds@ == old(self).conds@ + 1, final(self).has_frame == old(self).has_frame, final(self).mark@ == old(self).mark@, final(self).resets@ == old(self).resets@, final(self).bodies@ == old(self).bodies@, final(self).resets_at_body_end@ == old(self).resets_at_body_end@ { unimplemented!() }
    #[verifier::external_body]
    pub fn has_frame_arena(&self) -> (r: bool) ensures r == self.has_frame { unimplemented!() }
    // self.frame.offset(): the mark of this iteration
    #[verifier::external_body]
    pub fn frame_offset(&mut self) -> (r: usize)
        ensures final(self).mark@ == old(self).mark@.insert(r), final(self).has_frame == old(self).has_frame, final(self).resets@ == old(self).resets@, final(self).bodies@ == old(self).bodies@, final(self).conds@ == old(self).conds@, final(self).resets_at_body_end@ == old(self).resets_at_body_end@ { unimplemented!() }
    // self.exec_block_with_flow(body): the mark taken before it stays the mark of this iteration
    #[verifier::external_body]
    pub fn exec_body(&mut self, b: &BlockH) -> (r: Result<ExecFlow, RtErr>)
        requires old(self).conds@ == old(self).bodies@ + 1          // a body runs only after its round's condition was evaluated
        ensures final(self).bodies@ == old(self).bodies@ + 1, final(self).mark@ == old(self).mark@, final(self).has_frame == old(self).has_frame, final(self).resets@ == old(self).resets@, final(self).conds@ == old(self).conds@, final(self).resets_at_body_end@ == old(self).resets@ { unimplemented!() }
    // unsafe { self.frame.reset(offset) }: only ever back to a mark taken by THIS loop statement (all of them are at or above the frame
    // level the loop started at, so nothing allocated before the loop is reclaimed)
    #[verifier::external_body]
    pub fn frame_reset(&mut self, offset: usize)
        requires old(self).has_frame, old(self).mark@.contains(offset)
        ensures final(self).mark@ == old(self).mark@, final(self).resets@ == old(self).resets@ + 1, final(self).has_frame == old(self).has_frame, final(self).bodies@ == old(self).bodies@, final(self).conds@ == old(self).conds@, final(self).resets_at_body_end@ == old(self).resets_at_body_end@ { unimplemented!() }
}
pub struct FuncDef { pub body: BlockH, pub id: Option<u32> }
impl Rt {
    // running a function body: by the resolver's rule (comot/next cannot leave a function: K:resolver:check_function_body__contract,
    // K:resolver:control_flow_statements__leaf_rules) its flow is never Break / LoopContinue
    #[verifier::external_body]
    pub fn exec_function_body(&mut self, b: &BlockH) -> (r: Result<ExecFlow, RtErr>)
        ensures final(self).depth@ == old(self).depth@, final(self).frame_resets@ == old(self).frame_resets@, final(self).acts@ == old(self).acts@, r is Ok ==> (r->Ok_0 is Continue || r->Ok_0 is Return)
    { unimplemented!() }
    // relocate_return_value: resets the frame to the mark (unit residence)
    #[verifier::external_body]
    pub fn relocate_return_value(&mut self, v: ValueH, offset: usize) -> (r: ValueH) ensures final(self).depth@ == old(self).depth@, final(self).frame_resets@ == old(self).frame_resets@ + 1, final(self).acts@ == old(self).acts@ { unimplemented!() }
    // self.activations.pop() / .push(..): Vec operations on the mark stack
    #[verifier::external_body]
    pub fn pop_activation(&mut self) ensures final(self).acts@ == (if old(self).acts@.len() > 0 { old(self).acts@.drop_last() } else { old(self).acts@ }), final(self).depth@ == old(self).depth@, final(self).frame_resets@ == old(self).frame_resets@ { unimplemented!() }
    #[verifier::external_body]
    pub fn push_activation(&mut self, function: u32, base: usize) ensures final(self).acts@ == old(self).acts@.push((function, base as nat)), final(self).depth@ == old(self).depth@, final(self).frame_resets@ == old(self).frame_resets@ { unimplemented!() }
    // self.env.len()
    #[verifier::external_body]
    pub fn env_len(&self) -> (r: usize) ensures r == self.depth@ { unimplemented!() }
    pub uninterp spec fn pruned(&self, s: int) -> bool;                 // the optimisation plan says this statement is removable
    #[verifier::external_body]
    pub fn push_scope(&mut self) ensures final(self).depth@ == old(self).depth@ + 1, final(self).executed@ == old(self).executed@, final(self).hoisted@ == old(self).hoisted@,
        forall|s: int| final(self).pruned(s) == old(self).pruned(s) { unimplemented!() }
    #[verifier::external_body]
    pub fn pop_scope(&mut self) requires old(self).depth@ > 0 ensures final(self).depth@ == old(self).depth@ - 1, final(self).frame_resets@ == old(self).frame_resets@, final(self).acts@ == old(self).acts@, final(self).executed@ == old(self).executed@, final(self).hoisted@ == old(self).hoisted@,
        forall|s: int| final(self).pruned(s) == old(self).pruned(s) { unimplemented!() }
    // functions of the block are visible before its first statement runs
    #[verifier::external_body]
    pub fn hoist_block_functions(&mut self, b: &BlockH) requires old(self).executed@ == Set::<int>::empty() ensures final(self).hoisted@, final(self).depth@ == old(self).depth@, final(self).executed@ == old(self).executed@,
        forall|s: int| final(self).pruned(s) == old(self).pruned(s) { unimplemented!() }
    #[verifier::external_body]
    pub fn stmt_is_pruned(&self, s: &StmtH) -> (r: bool) ensures r == self.pruned(s.id@) { unimplemented!() }
    // self.exec_stmt(stmt): runs the statement (which restores the depth it found, on success) and reports how control leaves it
    #[verifier::external_body]
    pub fn exec_stmt(&mut self, s: &StmtH) -> (r: Result<ExecFlow, RtErr>)
        requires old(self).hoisted@
        ensures final(self).executed@ == old(self).executed@.insert(s.id@), final(self).hoisted@, r is Ok ==> final(self).depth@ == old(self).depth@,
                forall|x: int| final(self).pruned(x) == old(self).pruned(x)
    { unimplemented!() }
}
'''

UNIT = VUnit(
    name="block_exec",
    props=["C04", "C03", "C02"],
    source="src/runtime.rs",
    preamble=PRE,
    trusted=["the runtime state is a ghost record (scope depth, executed statements); exec_stmt/push_scope/pop_scope/hoist_block_functions/stmt_is_pruned are shims stating what each does to it",
             "the `#[cfg(test)]` counter is dropped (R7); a runtime error leaves the scope stack as it is (the run ends)"],
    items=[
        Enum("ExecFlow", derive="", rewrites=[Rw("R12", r"Value<'a>", "ValueH")]),
        Raw(MODEL),
        # one block: a scope is opened before anything else and closed on EVERY successful way out (so the scope stack has the depth it had
        # before: a later lookup cannot see this block's variables); the block's functions are hoisted before its first statement; statements
        # run in order, those the plan prunes are skipped and nothing else is; the first statement that does not complete normally ends the
        # block with exactly its flow (return / comot / next), otherwise the block completes normally
        Fn("exec_block_with_flow", impl="impl Runtime",
           sig="fn exec_block_with_flow(me: &mut Rt, block: &BlockH) -> (res: Result<ExecFlow, RtErr>)",
           expect_sig=r"fn exec_block_with_flow\(&mut self, block: BlockRef<'a>\) -> Result<ExecFlow<'a>, RuntimeError>",
           requires=["old(me).executed@ == Set::<int>::empty()"],
           ensures=["res is Ok ==> final(me).depth@ == old(me).depth@",
                    "res is Ok ==> forall|x: int| final(me).executed@.contains(x) ==> !old(me).pruned(x)",
                    "res is Ok && res->Ok_0 is Continue ==> forall|i: int| 0 <= i < block.stmts@.len() && !old(me).pruned((#[trigger] block.stmts@[i]).id@) ==> final(me).executed@.contains(block.stmts@[i].id@)"],
           loops={1: {"invariant": ["me.hoisted@", "me.depth@ == old(me).depth@ + 1", "forall|x: int| me.pruned(x) == old(me).pruned(x)",
                                    "forall|x: int| me.executed@.contains(x) ==> !old(me).pruned(x)",
                                    "forall|i: int| 0 <= i < it.index@ && !old(me).pruned((#[trigger] block.stmts@[i]).id@) ==> me.executed@.contains(block.stmts@[i].id@)",
                                    "it.index@ <= block.stmts@.len()", "vstd::std_specs::iter::IteratorSpec::remaining(&it.iter).len() + it.index@ == block.stmts@.len()",
                                    "forall|i: int| 0 <= i < block.stmts@.len() - it.index@ ==> *(#[trigger] vstd::std_specs::iter::IteratorSpec::remaining(&it.iter)[i]) == block.stmts@[it.index@ + i]"]}},
           rewrites=[Rw("R8", r"self\.push_scope_with_capacity\(0, self\.frame\);", "me.push_scope();", min_matches=1),
                     Rw("R8", r"self\.(hoist_block_functions|stmt_is_pruned|exec_stmt|pop_scope)\(", r"me.\1(", min_matches=5),
                     Rw("R7", r"#\[cfg\(test\)\]\s*\{\s*self\.skipped_stmt_count = self\s*\.skipped_stmt_count\s*\.checked_add\(1\)\s*\.expect\(\"[^\"]*\"\);\s*\}", "", min_matches=1),
                     Rw("R10", r"for stmt in block\.stmts", "for stmt in it: block.stmts.iter()", min_matches=1),
                     # Verus for-loops have no `continue`: `if C { continue; } REST` (REST = the rest of the loop body) == `if !C { REST }`
                     Rw("R10", r"if me\.stmt_is_pruned\(stmt\) \{\s*continue;\s*\}\s*(match me\.exec_stmt\(stmt\)\? \{.*?\n            \})", r"if !me.stmt_is_pruned(stmt) { \1 }", min_matches=1)],
           vacuity="-", real_name="Runtime::exec_block_with_flow"),
        # the tail of a user-function call: the parameter scope is closed whatever the body did (success or error), a body that completes
        # without `return` yields null, and when a frame mark was taken at call entry the frame is reset to it exactly once, through
        # relocate_return_value (which is what keeps the returned value alive across that reset)
        Block("call_epilogue", within="eval_function_call", impl="impl Runtime", arm=True,
              anchor=r"param_scope\.push\(LocalSlot \{ id: maybe_local, name: param, value: arg \}\);\s*\}",
              sig="fn call_epilogue(me: &mut Rt, func_def: &FuncDef, frame_offset: Option<usize>) -> (res: Result<ValueH, RtErr>)",
              requires=["old(me).depth@ > 0", "func_def.id is Some ==> old(me).acts@.len() > 0"],
              ensures=["final(me).depth@ == old(me).depth@ - 1",
                       # the mark of this activation (pushed by call_prologue iff the function has an id) is removed whatever the body did,
                       # and no other mark is touched: a later lookup sees exactly the activations that are still live
                       "final(me).acts@ == (if func_def.id is Some { old(me).acts@.drop_last() } else { old(me).acts@ })",
                       "res is Ok ==> final(me).frame_resets@ == old(me).frame_resets@ + (if frame_offset is Some { 1int } else { 0int })"],
              rewrites=[Rw("R9", r"self\.exec_block_with_flow\(func_def\.body\)", "me.exec_function_body(&func_def.body)", min_matches=1),
                        Rw("R8", r"self\.pop_scope\(\)", "me.pop_scope()", min_matches=1),
                        Rw("R8", r"self\.activations\.pop\(\);", "me.pop_activation();", min_matches=1),
                        Rw("R8", r"Value::Null", "null_value()", min_matches=1),
                        Rw("R9", r"self\.relocate_return_value\(", "me.relocate_return_value(", min_matches=1)],
              real_name="Runtime::eval_function_call (after argument binding: body, scope, return value)"),
        # the head of a user-function call: the activation mark that is pushed names this function and the parameter scope that was
        # opened just before it (the newest scope), so a lookup that stops at this mark sees this activation's scopes and no older one
        Block("call_prologue", within="eval_function_call", impl="impl Runtime",
              anchor=r"self\.push_scope_with_capacity\(func_def\.params\.params\.len\(\), self\.frame\);\s*if let Some\(function_id\) = func_def\.id",
              sig="fn call_prologue(me: &mut Rt, function_id: u32)",
              requires=["old(me).depth@ > 0", "old(me).depth@ < usize::MAX"],
              ensures=["final(me).acts@ == old(me).acts@.push((function_id, (old(me).depth@ - 1) as nat))", "final(me).depth@ == old(me).depth@"],
              rewrites=[Rw("R8", r"self\.activations\.push\(\(function_id, self\.env\.len\(\) - 1\)\);", "let n = me.env_len(); me.push_activation(function_id, n - 1);", min_matches=1)],
              real_name="Runtime::eval_function_call (activation mark pushed right after the parameter scope)"),
        # jasi: each round evaluates the condition first; a non-boolean condition is a reported type mismatch; with a frame arena the frame
        # is reset only at the END of a round that completed normally or with `next`, and only to a mark this loop statement took itself
        # (so nothing allocated before the loop is ever reclaimed); `comot` and `return` leave without a reset
        Block("loop_rounds", within="exec_stmt", impl="impl Runtime", arm=True,
              anchor=r"Stmt::Loop \{ cond, body, \.\. \} =>",
              sig="#[verifier::exec_allows_no_decreases_clause]\nfn loop_rounds(me: &mut Lp, cond: &CondH, body: &BlockH) -> (res: Result<ExecFlow, RtErr>)",
              requires=["old(me).conds@ == old(me).bodies@", "old(me).mark@ == Set::<usize>::empty()"],
              ensures=["res is Ok ==> (res->Ok_0 is Continue || res->Ok_0 is Return)",
                       "res is Ok ==> final(me).resets@ - old(me).resets@ <= final(me).bodies@ - old(me).bodies@",
                       "!old(me).has_frame ==> final(me).resets@ == old(me).resets@",
                       # a value returned from inside the loop still lives in the frame of the round that produced it: no reset after that body
                       "res is Ok && res->Ok_0 is Return ==> final(me).resets@ == final(me).resets_at_body_end@"],
              rewrites=[# the loop annotation (an insertion, not a change of code)
                        Rw("R0", r"loop \{", "loop\n invariant_except_break me.conds@ == me.bodies@,\n invariant me.has_frame == old(me).has_frame, me.bodies@ >= old(me).bodies@, me.resets@ - old(me).resets@ <= me.bodies@ - old(me).bodies@, !me.has_frame ==> me.resets@ == old(me).resets@,\n {", count=1, min_matches=1),
                        Rw("R9", r"self\.eval_expr\(cond\)\?", "me.eval_cond(cond)?", min_matches=1),
                        Rw("R12", r"Value::Bool\(b\) => b,\s*Value::Null => false,", "CondV::Bool(b) => b, CondV::Null => false,", min_matches=1),
                        Rw("R6", r"return Err\(RuntimeError::new\(\s*RuntimeErrorKind::TypeMismatch,\s*cond\.span\(\),\s*\)\);", "return Err(type_mismatch());", min_matches=1),
                        Rw("R9", r"self\.has_frame_arena\(\)", "me.has_frame_arena()", min_matches=1),
                        Rw("R9", r"self\.frame\.offset\(\)", "me.frame_offset()", min_matches=1),
                        Rw("R9", r"self\.exec_block_with_flow\(body\)\?", "me.exec_body(body)?", min_matches=1),
                        Rw("R3", r"unsafe \{ self\.frame\.reset\(offset\) \};", "me.frame_reset(offset);", min_matches=1)],
              real_name="Runtime::exec_stmt (Stmt::Loop arm: rounds and the per-round frame reset)"),
    ],
)
