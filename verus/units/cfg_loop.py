import sys, pathlib
sys.path.insert(0, str(pathlib.Path(__file__).resolve().parent.parent))
from vlib.vextract import VUnit, Fn, Const, Raw, Rw, Enum, Block, Struct

PRE = r'''
#[derive(PartialEq, Eq, Clone, Copy)] pub struct BlockId(pub u32);
#[derive(PartialEq, Eq, Clone, Copy)] pub struct ScopeId(pub u32);
#[derive(PartialEq, Eq, Clone, Copy)] pub struct StmtId(pub u32);

'''

MODEL = r'''
// the part of Terminator this arm builds (Goto) or obtains from branch_terminator (Branch); other variants are not involved
#[derive(PartialEq, Eq, Clone, Copy)]
pub enum Terminator {
    Goto { target: BlockId }, Branch { then_target: BlockId, else_target: BlockId },
    Break { stmt: StmtId, target: Option<BlockId> }, Continue { stmt: StmtId, target: Option<BlockId> },
}
// `loop_ctx.map(|ctx| ctx.break_target)` / `.map(|ctx| ctx.continue_target)` (Verus has no closures over Option::map here)
fn ctx_break_target(c: Option<LoopContext>) -> (r: Option<BlockId>)
    ensures r == (match c { Some(x) => Some(x.break_target), None => None::<BlockId> })
{ match c { Some(x) => Some(x.break_target), None => None } }
fn ctx_continue_target(c: Option<LoopContext>) -> (r: Option<BlockId>)
    ensures r == (match c { Some(x) => Some(x.continue_target), None => None::<BlockId> })
{ match c { Some(x) => Some(x.continue_target), None => None } }

// Ghost record of what the builder was asked to do.  Every shim below states what the real method does to the graph:
//   new_block          -> a block id never returned before
//   ensure_block       -> the cursor's block, or a fresh one
//   set_terminator     -> that block's terminator is (over)written
//   branch_terminator  -> Branch with exactly the two targets it is given (the real body is a struct literal)
//   lower_block        -> lowers the body starting in the cursor's block under the LoopContext it is given; returns the body's tail
//                         (an OPEN block: cursors only ever point at blocks without a terminator), keeps existing terminators
pub struct G {
    pub next: Ghost<nat>,
    pub term: Ghost<Map<BlockId, Terminator>>,
    pub body_start: Ghost<Option<BlockId>>,
    pub body_ctx: Ghost<Option<LoopContext>>,
    pub body_tail: Ghost<Option<BlockId>>,
    pub pre: Ghost<Option<BlockId>>,
    pub calls: Ghost<Seq<Lowered>>,             // every lower_block call so far, in order
    pub stmt_at: Ghost<Option<BlockId>>,        // the block the statement's own op (its condition reads) was pushed into
}
// one lower_block call: where it started, under which loop context, and the open block it ended in (None: no fall-through)
pub struct Lowered { pub start: Option<BlockId>, pub ctx: Option<LoopContext>, pub tail: Option<BlockId> }
pub open spec fn cond_of(g: &G) -> BlockId { g.term@[g.pre@->Some_0]->Goto_target }
pub open spec fn entry_of(g: &G) -> BlockId { g.term@[cond_of(g)]->Branch_then_target }
pub struct Program { pub g: Ghost<int> }
pub struct Body { pub g: Ghost<int> }
pub struct Scopes { pub g: Ghost<int> }
impl Scopes {
    #[verifier::external_body] pub fn push(&mut self, s: ScopeId) { unimplemented!() }
    #[verifier::external_body] pub fn pop(&mut self) { unimplemented!() }
}
impl G {
    pub open spec fn fresh(&self, b: BlockId) -> bool { b.0 as nat >= self.next@ }
    #[verifier::external_body]
    pub fn scope_of_loop_body(&self, body: &Body) -> (r: ScopeId) { unimplemented!() }
    #[verifier::external_body]
    pub fn new_block(&mut self, cause: Option<UnreachableCause>) -> (r: BlockId)
        ensures old(self).fresh(r), final(self).next@ == r.0 as nat + 1, final(self).next@ > old(self).next@,
                final(self).term@ == old(self).term@, final(self).body_start@ == old(self).body_start@, final(self).body_ctx@ == old(self).body_ctx@,
                final(self).body_tail@ == old(self).body_tail@, final(self).pre@ == old(self).pre@, final(self).stmt_at@ == old(self).stmt_at@, final(self).calls@ == old(self).calls@,
    { unimplemented!() }
    #[verifier::external_body]
    pub fn ensure_block(&mut self, cursor: &mut Cursor) -> (r: BlockId)
        ensures final(cursor).block == Some(r), !old(self).fresh(r) || final(self).next@ > r.0 as nat, final(self).next@ >= old(self).next@, !final(self).fresh(r),
                final(self).term@ == old(self).term@, final(self).pre@ == Some(r), final(self).stmt_at@ == old(self).stmt_at@,
                final(self).body_start@ == old(self).body_start@, final(self).body_ctx@ == old(self).body_ctx@, final(self).body_tail@ == old(self).body_tail@, final(self).calls@ == old(self).calls@,
    { unimplemented!() }
    #[verifier::external_body]
    pub fn set_terminator(&mut self, b: BlockId, t: Terminator)
        ensures final(self).term@ == old(self).term@.insert(b, t), final(self).next@ == old(self).next@, final(self).pre@ == old(self).pre@, final(self).stmt_at@ == old(self).stmt_at@,
                final(self).body_start@ == old(self).body_start@, final(self).body_ctx@ == old(self).body_ctx@, final(self).body_tail@ == old(self).body_tail@, final(self).calls@ == old(self).calls@,
    { unimplemented!() }
    #[verifier::external_body]
    pub fn push_stmt(&mut self, program: &mut Program, b: BlockId, parent: Option<StmtId>) -> (r: StmtId)
        ensures final(self).stmt_at@ == Some(b), final(self).term@ == old(self).term@, final(self).next@ == old(self).next@, final(self).pre@ == old(self).pre@,
                final(self).body_start@ == old(self).body_start@, final(self).body_ctx@ == old(self).body_ctx@, final(self).body_tail@ == old(self).body_tail@, final(self).calls@ == old(self).calls@,
    { unimplemented!() }
    #[verifier::external_body]
    pub fn branch_terminator(&self, stmt: StmtId, then_target: BlockId, else_target: BlockId) -> (r: Terminator)
        ensures r == (Terminator::Branch { then_target, else_target }),
    { unimplemented!() }
    #[verifier::external_body]
    pub fn lower_block(&mut self, body: &Body, cursor: Cursor, loop_ctx: Option<LoopContext>, parent: Option<StmtId>, scopes: &mut Scopes, program: &mut Program) -> (r: Cursor)
        ensures final(self).body_start@ == cursor.block, final(self).body_ctx@ == loop_ctx, final(self).body_tail@ == r.block,
                final(self).calls@ == old(self).calls@.push(Lowered { start: cursor.block, ctx: loop_ctx, tail: r.block }),
                final(self).next@ >= old(self).next@, final(self).pre@ == old(self).pre@, final(self).stmt_at@ == old(self).stmt_at@,
                r.block is Some ==> !final(self).fresh(r.block->Some_0),
                // a cursor's block is open: it has no terminator yet
                r.block is Some ==> !final(self).term@.dom().contains(r.block->Some_0),
                // the body may add blocks and terminators but leaves the terminators of blocks that already had one
                forall|b: BlockId| #![trigger final(self).term@[b]] #![trigger final(self).term@.dom().contains(b)] #![trigger old(self).term@.dom().contains(b)]
                    old(self).term@.dom().contains(b) ==> final(self).term@.dom().contains(b) && final(self).term@[b] == old(self).term@[b],
    { unimplemented!() }
    #[verifier::external_body]
    pub fn kill_scopes_through(&mut self, b: BlockId, scopes: &Scopes, boundary: ScopeId)
        ensures final(self).term@ == old(self).term@, final(self).next@ == old(self).next@, final(self).pre@ == old(self).pre@, final(self).stmt_at@ == old(self).stmt_at@,
                final(self).body_start@ == old(self).body_start@, final(self).body_ctx@ == old(self).body_ctx@, final(self).body_tail@ == old(self).body_tail@, final(self).calls@ == old(self).calls@,
    { unimplemented!() }
    #[verifier::external_body]
    pub fn add_scope_kills(&mut self, b: BlockId, s: ScopeId)
        ensures final(self).term@ == old(self).term@, final(self).next@ == old(self).next@, final(self).pre@ == old(self).pre@, final(self).stmt_at@ == old(self).stmt_at@,
                final(self).body_start@ == old(self).body_start@, final(self).body_ctx@ == old(self).body_ctx@, final(self).body_tail@ == old(self).body_tail@, final(self).calls@ == old(self).calls@,
    { unimplemented!() }
}
'''

UNIT = VUnit(
    name="cfg_loop",
    props=["C03"],
    source="src/analysis/cfg.rs",
    preamble=PRE,
    trusted=["the builder methods are shims over a ghost record of the graph, each stating what the real method does (new_block is fresh, set_terminator overwrites one block, branch_terminator is a struct literal of its two targets, lower_block lowers the body under the LoopContext it is given)",
             "struct definitions Cursor and LoopContext are copied from the source on every run"],
    items=[
        Enum("UnreachableCause", derive="#[derive(Clone, Copy)]"),
        Struct("Cursor"),
        Struct("LoopContext", derive="#[derive(PartialEq, Eq, Clone, Copy)]"),
        Raw(MODEL),
        # jasi (cond) start body end:  pre -> cond;  cond -> (body_entry | exit);  the body is lowered from body_entry with
        # comot -> exit and next -> cond;  body tail -> cond;  lowering continues in exit.  All three blocks are new and distinct.
        Block("lower_loop", within="lower_stmt", impl="impl FunctionBuilder", arm=True,
              anchor=r"Stmt::Loop \{ body, span, \.\. \} =>",
              sig="fn lower_loop(g: &mut G, body: &Body, cursor0: Cursor, parent_stmt: Option<StmtId>, scope_stack: &mut Scopes, program: &mut Program) -> (res: Cursor)",
              prologue="    let mut cursor = cursor0;",
              ensures=["res.block is Some",
                       "final(g).pre@ is Some && final(g).term@.dom().contains(final(g).pre@->Some_0) && final(g).term@[final(g).pre@->Some_0] is Goto",
                       "final(g).term@.dom().contains(cond_of(final(g))) && final(g).term@[cond_of(final(g))] is Branch",
                       # the loop statement's op -- the condition's reads -- is in the condition block, which every round passes (so what the
                       # condition reads is live around the back edge)
                       "final(g).stmt_at@ == Some(cond_of(final(g)))",
                       "final(g).term@[cond_of(final(g))]->Branch_else_target == res.block->Some_0",
                       "final(g).body_start@ == Some(entry_of(final(g)))",
                       # comot leaves the loop, next re-evaluates the condition
                       "final(g).body_ctx@ is Some && final(g).body_ctx@->Some_0.break_target == res.block->Some_0 && final(g).body_ctx@->Some_0.continue_target == cond_of(final(g))",
                       "final(g).body_tail@ is Some ==> final(g).term@.dom().contains(final(g).body_tail@->Some_0) && final(g).term@[final(g).body_tail@->Some_0] == (Terminator::Goto { target: cond_of(final(g)) })",
                       "old(g).fresh(cond_of(final(g))) && old(g).fresh(res.block->Some_0) && old(g).fresh(entry_of(final(g)))",
                       "cond_of(final(g)) != res.block->Some_0 && cond_of(final(g)) != entry_of(final(g)) && res.block->Some_0 != entry_of(final(g))"],
              rewrites=[Rw("R9", r"self\.facts\.scope_of_block\(body\)\.expect\(\"Each loop body should map to a scope\"\)", "g.scope_of_loop_body(body)", min_matches=1),
                        Rw("R9", r"self\.push_stmt\(program, (\w+), stmt, \*span, parent_stmt\)", r"g.push_stmt(program, \1, parent_stmt)", min_matches=1),
                        Rw("R9", r"self\.branch_terminator\(stmt_id, \*span, ", "g.branch_terminator(stmt_id, ", min_matches=1),
                        Rw("R9", r"self\.(ensure_block|new_block|set_terminator|lower_block|add_scope_kills)\(", r"g.\1(", min_matches=8)],
              real_name="FunctionBuilder::lower_stmt (Stmt::Loop arm: shape of the lowered loop)"),
        # comot ends its block with a Break edge to the enclosing loop's exit, next with a Continue edge to its condition block;
        # what follows either is dead
        Block("lower_break", within="lower_stmt", impl="impl FunctionBuilder", arm=True,
              anchor=r"Stmt::Break \{ span \} =>",
              sig="fn lower_break(g: &mut G, loop_ctx: Option<LoopContext>, cursor0: Cursor, parent_stmt: Option<StmtId>, scope_stack: &mut Scopes, program: &mut Program) -> (res: Cursor)",
              prologue="    let mut cursor = cursor0;",
              ensures=["res.block is None",
                       "final(g).pre@ is Some && final(g).term@.dom().contains(final(g).pre@->Some_0) && final(g).term@[final(g).pre@->Some_0] is Break",
                       "loop_ctx is Some ==> final(g).term@[final(g).pre@->Some_0]->Break_target == Some(loop_ctx->Some_0.break_target)"],
              rewrites=[Rw("R9", r"self\.push_stmt\(program, block, stmt, \*span, parent_stmt\)", "g.push_stmt(program, block, parent_stmt)", min_matches=1),
                        Rw("R9", r"loop_ctx\.map\(\|ctx\| ctx\.(break|continue)_target\)", r"ctx_\1_target(loop_ctx)", min_matches=1),
                        Rw("R6", r"span: \*span,", "", min_matches=1),
                        Rw("R9", r"self\.(ensure_block|set_terminator|kill_scopes_through)\(", r"g.\1(", min_matches=3)],
              real_name="FunctionBuilder::lower_stmt (Stmt::Break arm)"),
        Block("lower_continue", within="lower_stmt", impl="impl FunctionBuilder", arm=True,
              anchor=r"Stmt::Continue \{ span \} =>",
              sig="fn lower_continue(g: &mut G, loop_ctx: Option<LoopContext>, cursor0: Cursor, parent_stmt: Option<StmtId>, scope_stack: &mut Scopes, program: &mut Program) -> (res: Cursor)",
              prologue="    let mut cursor = cursor0;",
              ensures=["res.block is None",
                       "final(g).pre@ is Some && final(g).term@.dom().contains(final(g).pre@->Some_0) && final(g).term@[final(g).pre@->Some_0] is Continue",
                       "loop_ctx is Some ==> final(g).term@[final(g).pre@->Some_0]->Continue_target == Some(loop_ctx->Some_0.continue_target)"],
              rewrites=[Rw("R9", r"self\.push_stmt\(program, block, stmt, \*span, parent_stmt\)", "g.push_stmt(program, block, parent_stmt)", min_matches=1),
                        Rw("R9", r"loop_ctx\.map\(\|ctx\| ctx\.(break|continue)_target\)", r"ctx_\1_target(loop_ctx)", min_matches=1),
                        Rw("R6", r"span: \*span,", "", min_matches=1),
                        Rw("R9", r"self\.(ensure_block|set_terminator|kill_scopes_through)\(", r"g.\1(", min_matches=3)],
              real_name="FunctionBuilder::lower_stmt (Stmt::Continue arm)"),
        # if: the condition block branches to a fresh then-entry and a fresh else-entry; each present branch is lowered from its entry under
        # the SAME loop context as the if itself (comot/next inside an if still leave/continue the enclosing loop); the open tails (or the bare
        # else-entry) meet in a fresh join block, and there is no fall-through exactly when neither side has one
        Block("lower_if", within="lower_stmt", impl="impl FunctionBuilder", arm=True,
              anchor=r"Stmt::If \{ then_b, else_b, span, \.\. \} =>",
              sig="fn lower_if(g: &mut G, then_b: &Body, else_b: &Option<&Body>, loop_ctx: Option<LoopContext>, cursor0: Cursor, parent_stmt: Option<StmtId>, scope_stack: &mut Scopes, program: &mut Program) -> (res: Cursor)",
              prologue="    let mut cursor = cursor0;",
              requires=["old(g).calls@.len() == 0"],
              ensures=["final(g).pre@ is Some && final(g).term@.dom().contains(final(g).pre@->Some_0) && final(g).term@[final(g).pre@->Some_0] is Branch",
                       "final(g).calls@.len() == (if *else_b is Some { 2int } else { 1int })",
                       "final(g).calls@[0].start == Some(final(g).term@[final(g).pre@->Some_0]->Branch_then_target) && final(g).calls@[0].ctx == loop_ctx",
                       "*else_b is Some ==> final(g).calls@[1].start == Some(final(g).term@[final(g).pre@->Some_0]->Branch_else_target) && final(g).calls@[1].ctx == loop_ctx",
                       "old(g).fresh(final(g).term@[final(g).pre@->Some_0]->Branch_then_target) && old(g).fresh(final(g).term@[final(g).pre@->Some_0]->Branch_else_target) && final(g).term@[final(g).pre@->Some_0]->Branch_then_target != final(g).term@[final(g).pre@->Some_0]->Branch_else_target",
                       # join
                       "({ let then_tail = final(g).calls@[0].tail; let else_tail = if *else_b is Some { final(g).calls@[1].tail } else { Some(final(g).term@[final(g).pre@->Some_0]->Branch_else_target) };"
                       "   (res.block is None <==> (then_tail is None && else_tail is None))"
                       "   && (res.block is Some ==> old(g).fresh(res.block->Some_0)"
                       "        && (then_tail is Some ==> final(g).term@.dom().contains(then_tail->Some_0) && final(g).term@[then_tail->Some_0] == (Terminator::Goto { target: res.block->Some_0 }))"
                       "        && (else_tail is Some ==> final(g).term@.dom().contains(else_tail->Some_0) && final(g).term@[else_tail->Some_0] == (Terminator::Goto { target: res.block->Some_0 }))) })"],
              rewrites=[Rw("R9", r"self\s*\.facts\s*\.scope_of_block\((\w+)\)\s*\.expect\(\"[^\"]*\"\)", r"g.scope_of_loop_body(\1)", min_matches=2),
                        Rw("R9", r"self\.push_stmt\(program, block, stmt, \*span, parent_stmt\)", "g.push_stmt(program, block, parent_stmt)", min_matches=1),
                        Rw("R9", r"self\.branch_terminator\(stmt_id, \*span, ", "g.branch_terminator(stmt_id, ", min_matches=1),
                        Rw("R9", r"self\.(ensure_block|new_block|set_terminator|lower_block|add_scope_kills)\(", r"g.\1(", min_matches=10),
                        ],
              real_name="FunctionBuilder::lower_stmt (Stmt::If arm: shape of the lowered conditional)"),
    ],
)
