import sys, pathlib
sys.path.insert(0, str(pathlib.Path(__file__).resolve().parent.parent))
from vlib.vextract import VUnit, Fn, Const, Raw, Rw, Enum, Block, Struct

# C04 (after aa88211): where a lookup by local id starts.  The searches themselves (lookup_local_env, lookup_local_mut,
# assign_bound_local) are `env[floor..].iter().rev().find_map(..)` chains and stay outside; the floor is decided here.

PRE = r'''
#[derive(Clone, Copy)] pub struct LocalId { pub g: Ghost<int> }
pub struct Slot { pub idv: Ghost<Option<int>> }                  // LocalSlot: only `id` matters here (name and value are not read by the search)
pub struct Ra { pub activations: Vec<(u32, usize)>, pub has_facts: bool, pub env: Vec<Vec<Slot>> }
impl Slot {
    // `slot.id == Some(local)` (derived PartialEq on Option<LocalId>)
    #[verifier::external_body]
    pub fn is(&self, l: LocalId) -> (r: bool) ensures r == (self.idv@ == Some(l.g@)) { unimplemented!() }
}
pub uninterp spec fn owner_of(l: LocalId) -> u32;                // facts.locals[local].owner
impl Ra {
    // `self.facts()` then `facts.locals[local.0 as usize].owner` (None: no analysis facts installed, lookups then go by name)
    #[verifier::external_body]
    pub fn owner(&self, l: LocalId) -> (r: Option<u32>) ensures r is Some == self.has_facts, r is Some ==> r->Some_0 == owner_of(l) { unimplemented!() }
}
// the newest mark of function f among the first n marks, if any
pub open spec fn newest(a: Seq<(u32, usize)>, f: u32, n: int) -> Option<usize> decreases n {
    if n <= 0 { None } else if a[n - 1].0 == f { Some(a[n - 1].1) } else { newest(a, f, n - 1) }
}
'''

PRE += r'''
// where the search for `l` starts, as the property states it
pub open spec fn floor_of(me: &Ra, l: LocalId) -> int {
    if !me.has_facts { 0 } else { match newest(me.activations@, owner_of(l), me.activations@.len() as int) { Some(b) => b as int, None => 0 } }
}
pub open spec fn holds(me: &Ra, s: int, j: int, l: LocalId) -> bool { me.env@[s]@[j].idv@ == Some(l.g@) }
pub proof fn lemma_newest_bounded(a: Seq<(u32, usize)>, f: u32, n: int, k: int)
    requires 0 <= n <= a.len(), forall|i: int| 0 <= i < n ==> (#[trigger] a[i]).1 <= k,
    ensures newest(a, f, n) is Some ==> newest(a, f, n)->Some_0 <= k,
    decreases n
{ if n > 0 && a[n - 1].0 != f { lemma_newest_bounded(a, f, n - 1, k); } }

// ---- why the searches' precondition holds at every call (composition over the contracts of unit block_exec; spec level only) ----
// marks_ok(a, d): with d scopes on the stack, every mark names an existing scope and marks are in stack order
pub open spec fn marks_ok(a: Seq<(u32, usize)>, d: int) -> bool {
    (forall|i: int| 0 <= i < a.len() ==> (#[trigger] a[i]).1 < d) && (forall|i: int, j: int| 0 <= i < j < a.len() ==> (#[trigger] a[i]).1 < (#[trigger] a[j]).1)
}
// call_prologue (block_exec: acts' == acts.push((f, depth - 1)) right after the parameter scope was opened at depth d -> d + 1)
pub proof fn lemma_marks_call(a: Seq<(u32, usize)>, d: int, f: u32, base: usize)
    requires marks_ok(a, d), base == d, ensures marks_ok(a.push((f, base)), d + 1)
{ let b = a.push((f, base)); assert forall|i: int| 0 <= i < b.len() implies (#[trigger] b[i]).1 < d + 1 by { if i < a.len() { assert(b[i] == a[i]); } }
  assert forall|i: int, j: int| 0 <= i < j < b.len() implies (#[trigger] b[i]).1 < (#[trigger] b[j]).1 by { assert(b[i] == a[i]); if j < a.len() { assert(b[j] == a[j]); } } }
// a block opening a scope inside the activation (exec_block_with_flow: depth + 1, acts unchanged), and closing it again while every mark stays below
pub proof fn lemma_marks_deeper(a: Seq<(u32, usize)>, d: int, e: int) requires marks_ok(a, d), d <= e, ensures marks_ok(a, e) { }
// call_epilogue (block_exec: acts' == acts.drop_last(), depth - 1) when the removed mark is the one of the scope being closed
pub proof fn lemma_marks_return(a: Seq<(u32, usize)>, d: int)
    requires marks_ok(a, d + 1), a.len() > 0, a.last().1 == d, ensures marks_ok(a.drop_last(), d)
{ let b = a.drop_last(); assert forall|i: int| 0 <= i < b.len() implies (#[trigger] b[i]).1 < d by { assert(b[i] == a[i]); assert(a[i].1 < a[a.len() - 1].1); } }
// and marks_ok is what the three searches require
pub proof fn lemma_marks_pre(a: Seq<(u32, usize)>, d: int) requires marks_ok(a, d), ensures forall|i: int| 0 <= i < a.len() ==> (#[trigger] a[i]).1 <= d { }
'''

# R10e: `for X in S[floor..].iter_mut().rev() {` / `for Y in X.iter_mut().rev() {` written as the index loops std defines them to be
# (last index first, down to `floor` / 0); `return Some(&mut slot.value)` returns the POSITION of that slot instead of the borrow
def outer(lo):
  return ("let lo: usize = %s; let mut si: usize = me.env.len();\n"
         "        while si > lo\n"
         "            invariant lo <= si <= me.env@.len(),\n" % lo +
         "                      forall|s2: int, j2: int| si <= s2 < me.env@.len() && 0 <= j2 < me.env@[s2]@.len() ==> !#[trigger] holds(me, s2, j2, local),\n"
         "            decreases si,\n"
         "        { si = si - 1; let scope = &me.env[si];")
OUTER = outer(r"\1")
INNER = ("let mut sj: usize = scope.len();\n"
         "            while sj > 0\n"
         "                invariant sj <= scope@.len(), lo <= si < me.env@.len(), *scope == me.env@[si as int],\n"
         "                          forall|s2: int, j2: int| si < s2 < me.env@.len() && 0 <= j2 < me.env@[s2]@.len() ==> !#[trigger] holds(me, s2, j2, local),\n"
         "                          forall|j2: int| sj <= j2 < scope@.len() ==> !#[trigger] holds(me, si as int, j2, local),\n"
         "                decreases sj,\n"
         "            { sj = sj - 1; let slot = &scope[sj];")

# R10f: `if let Some(slot) = scope.iter_mut().rev().find(|slot| P) {` written as the loop std defines it to be (last element first,
# the first one satisfying P), the found element named by its index
FIND = ("let mut sj: usize = scope.len(); let mut found: Option<usize> = None;\n"
        "            while sj > 0\n"
        "                invariant_except_break found is None, forall|j2: int| sj <= j2 < scope@.len() ==> !#[trigger] holds(me, si as int, j2, local),\n"
        "                invariant sj <= scope@.len(), lo <= si < me.env@.len(), *scope == me.env@[si as int],\n"
        "                ensures found is Some ==> found->Some_0 < scope@.len() && holds(me, si as int, found->Some_0 as int, local) && (forall|j2: int| found->Some_0 < j2 < scope@.len() ==> !#[trigger] holds(me, si as int, j2, local)),\n"
        "                        found is None ==> forall|j2: int| 0 <= j2 < scope@.len() ==> !#[trigger] holds(me, si as int, j2, local),\n"
        "                decreases sj,\n"
        "            { sj = sj - 1; let slot = &scope[sj]; if slot.is(local) { found = Some(sj); break; } }\n"
        "            if let Some(sj) = found {")

# R10g: the nested `X.iter().rev().find_map(|scope| { scope.iter().rev().find_map(|slot| if P { Some(&slot.value) } else { None }) })` written as
# the two loops std defines it to be; the first `Some` ends both (returned as the slot's position)
INNER_FM = INNER + " if slot.is(local) { return Some((si, sj)); } }"

def search_ensures(ok, some0, none):
    return [
        "%s ==> floor_of(me, local) <= %s.0 < me.env@.len() && %s.1 < me.env@[%s.0 as int]@.len() && holds(me, %s.0 as int, %s.1 as int, local)" % (ok, some0, some0, some0, some0, some0),
        "%s ==> forall|s2: int, j2: int| %s.0 < s2 < me.env@.len() && 0 <= j2 < me.env@[s2]@.len() ==> !#[trigger] holds(me, s2, j2, local)" % (ok, some0),
        "%s ==> forall|j2: int| %s.1 < j2 < me.env@[%s.0 as int]@.len() ==> !#[trigger] holds(me, %s.0 as int, j2, local)" % (ok, some0, some0, some0),
        "%s ==> forall|s2: int, j2: int| floor_of(me, local) <= s2 < me.env@.len() && 0 <= j2 < me.env@[s2]@.len() ==> !#[trigger] holds(me, s2, j2, local)" % none]

UNIT = VUnit(
    name="activation_floor",
    props=["C04"],
    source="src/runtime.rs",
    preamble=PRE,
    trusted=["activation marks are (u32, usize) pairs (FunctionId is a u32 newtype); the facts table is a shim returning the local's owner",
             "R10d: `X.iter().rev().find_map(|(function, base)| (COND).then_some(*base)).unwrap_or(0)` is written as the loop std defines it to be: from the last element to the first, the first element satisfying COND gives the value, 0 if none",
             "R10e: in lookup_local_mut the two `for .. in ...iter_mut().rev()` loops are written as index loops from the last element down (to `floor` for the slice `env[floor..]`), and the returned `&mut slot.value` as the slot's position (scope index, slot index); LocalSlot is reduced to its `id`",
             "every activation mark's base is at most env.len() (precondition of lookup_local_mut: established by call_prologue, which pushes the mark for the scope it has just opened -- unit block_exec). Lemmas lemma_marks_call / _deeper / _return / _pre show at spec level that the pushes and pops those contracts describe keep `marks_ok` and that it implies this precondition; that the REAL call sites are reached only in such states (an invariant across eval_function_call's whole body and every error path) is not an obligation of any check. Without the precondition `env[floor..]` panics",
             "R10f: in assign_bound_local `scope.iter_mut().rev().find(|slot| slot.id == Some(local))` is written as its loop (last element first); the slot handed to overwrite_slot is returned as its position, the write itself (overwrite_slot: unit store_sites) and the three locals it needs are dropped, the UndeclaredVariable error is `Err(())`",
             "R10g: in lookup_local_env the nested `iter().rev().find_map(..)` chain is written as its two loops (last element first, the first `Some` ends both), the `&slot.value` as the slot's position"],
    lemma_obligations=["lemma_newest_bounded", "lemma_marks_call", "lemma_marks_deeper", "lemma_marks_return", "lemma_marks_pre"],
    items=[
        Fn("local_search_floor", impl="impl Runtime",
           sig="fn local_search_floor(me: &Ra, local: LocalId) -> (res: usize)", expect_sig=r"fn local_search_floor\(&self, local: LocalId\) -> usize",
           ensures=["!me.has_facts ==> res == 0",
                    # the parameter scope of the NEWEST activation of the function that owns the local; the whole stack when it has none
                    "me.has_facts ==> res == (match newest(me.activations@, owner_of(local), me.activations@.len() as int) { Some(b) => b, None => 0usize })"],
           rewrites=[Rw("R9", r"let Some\(facts\) = self\.facts\(\) else \{\s*return 0;\s*\};\s*let owner = facts\.locals\[local\.0 as usize\]\.owner;", "let Some(owner) = me.owner(local) else { return 0; };", min_matches=1),
                     Rw("R10d", r"self\.activations\s*\.iter\(\)\s*\.rev\(\)\s*\.find_map\(\|\(function, base\)\| \(\*function == owner\)\.then_some\(\*base\)\)\s*\.unwrap_or\(0\)",
                        "{ let mut r: usize = 0; let mut i: usize = me.activations.len();\n"
                        "          while i > 0\n"
                        "              invariant_except_break r == 0, newest(me.activations@, owner, me.activations@.len() as int) == newest(me.activations@, owner, i as int),\n"
                        "              invariant i <= me.activations@.len(),\n"
                        "              ensures r == (match newest(me.activations@, owner, me.activations@.len() as int) { Some(b) => b, None => 0usize }),\n"
                        "              decreases i,\n"
                        "          { i = i - 1; let (function, base) = &me.activations[i]; if *function == owner { r = *base; break; } }\n"
                        "          r }", min_matches=0),
                     Rw("R2", r"self\.activations", "me.activations", min_matches=0)],
           vacuity="-", real_name="Runtime::local_search_floor"),
        Fn("lookup_local_mut", impl="impl Runtime",
           sig="fn lookup_local_mut(me: &Ra, local: LocalId) -> (res: Option<(usize, usize)>)",
           expect_sig=r"fn lookup_local_mut\(&mut self, local: LocalId\) -> Option<&mut Value<'a>>",
           requires=["forall|i: int| 0 <= i < me.activations@.len() ==> (#[trigger] me.activations@[i]).1 <= me.env@.len()"],
           ensures=[
               # the answer lies in the newest activation of the owner (never below its parameter scope) and holds this local
               "res is Some ==> floor_of(me, local) <= res->Some_0.0 < me.env@.len() && res->Some_0.1 < me.env@[res->Some_0.0 as int]@.len() && holds(me, res->Some_0.0 as int, res->Some_0.1 as int, local)",
               # it is the NEWEST such slot: no later scope, and no later slot of the same scope, holds the local
               "res is Some ==> forall|s2: int, j2: int| res->Some_0.0 < s2 < me.env@.len() && 0 <= j2 < me.env@[s2]@.len() ==> !#[trigger] holds(me, s2, j2, local)",
               "res is Some ==> forall|j2: int| res->Some_0.1 < j2 < me.env@[res->Some_0.0 as int]@.len() ==> !#[trigger] holds(me, res->Some_0.0 as int, j2, local)",
               # None only when no scope from the floor up holds it
               "res is None ==> forall|s2: int, j2: int| floor_of(me, local) <= s2 < me.env@.len() && 0 <= j2 < me.env@[s2]@.len() ==> !#[trigger] holds(me, s2, j2, local)"],
           rewrites=[Rw("R2", r"let (\w+) = self\.local_search_floor\(local\);",
                        r"let \1 = local_search_floor(me, local);\n        proof { lemma_newest_bounded(me.activations@, owner_of(local), me.activations@.len() as int, me.env@.len() as int); }", min_matches=0),
                     Rw("R2", r"self\.local_search_floor\(local\)", "local_search_floor(me, local)", min_matches=0),
                     # the slice's lower bound is taken from the code (whatever expression it is); no slice / `[..]` means 0
                     Rw("R10e", r"for scope in self\.env\[([\w .+\-()]+)\.\.\]\.iter_mut\(\)\.rev\(\) \{", OUTER, min_matches=0),
                     Rw("R10e", r"for scope in self\.env(?:\[\.\.\])?\.iter_mut\(\)\.rev\(\) \{", outer("0"), min_matches=0),
                     Rw("R10e", r"for slot in scope\.iter_mut\(\)\.rev\(\) \{", INNER, min_matches=1),
                     Rw("R10e", r"slot\.id == Some\(local\)", "slot.is(local)", min_matches=1),
                     Rw("R10e", r"return Some\(&mut slot\.value\);", "return Some((si, sj));", min_matches=1)],
           attrs="#[verifier::loop_isolation(false)]", vacuity="-", real_name="Runtime::lookup_local_mut"),
        Fn("lookup_local_env", impl="impl Runtime",
           sig="fn lookup_local_env(me: &Ra, local: LocalId) -> (res: Option<(usize, usize)>)",
           expect_sig=r"fn lookup_local_env\(&self, local: LocalId\) -> Option<&Value<'a>>",
           requires=["forall|i: int| 0 <= i < me.activations@.len() ==> (#[trigger] me.activations@[i]).1 <= me.env@.len()"],
           ensures=search_ensures("res is Some", "res->Some_0", "res is None"),
           rewrites=[Rw("R2", r"let (\w+) = self\.local_search_floor\(local\);",
                        r"let \1 = local_search_floor(me, local);\n        proof { lemma_newest_bounded(me.activations@, owner_of(local), me.activations@.len() as int, me.env@.len() as int); }", min_matches=0),
                     Rw("R2", r"self\.local_search_floor\(local\)", "local_search_floor(me, local)", min_matches=0),
                     Rw("R10g", r"self\.env\[([\w .+\-()]+)\.\.\]\.iter\(\)\.rev\(\)\.find_map\(\|scope\| \{", OUTER, min_matches=0),
                     Rw("R10g", r"self\.env(?:\[\.\.\])?\.iter\(\)\.rev\(\)\.find_map\(\|scope\| \{", outer("0"), min_matches=0),
                     Rw("R10g", r"scope\s*\.iter\(\)\s*\.rev\(\)\s*\.find_map\(\|slot\| if slot\.id == Some\(local\) \{ Some\(&slot\.value\) \} else \{ None \}\)", INNER_FM, min_matches=1),
                     Rw("R10g", r"\}\)\s*\}\s*$", "}\n        None\n    }", min_matches=1)],
           attrs="#[verifier::loop_isolation(false)]", vacuity="-", real_name="Runtime::lookup_local_env"),
        # the slot an assignment by local id overwrites: Ok names the slot handed to overwrite_slot, Err is UndeclaredVariable
        Fn("assign_bound_local", impl="impl Runtime",
           sig="fn assign_bound_local(me: &Ra, local: LocalId) -> (res: Result<(usize, usize), ()>)",
           expect_sig=r"fn assign_bound_local\(\s*&mut self,\s*local: LocalId,\s*val: Value<'a>,\s*span: Span,?\s*\) -> Result<\(\), RuntimeError>",
           requires=["forall|i: int| 0 <= i < me.activations@.len() ==> (#[trigger] me.activations@[i]).1 <= me.env@.len()"],
           ensures=search_ensures("res is Ok", "res->Ok_0", "res is Err"),
           rewrites=[Rw("R8", r"let has_frame = self\.has_frame_arena\(\);|let pool = &self\.pool;|let frame = self\.frame;", "", min_matches=0),
                     Rw("R2", r"let (\w+) = self\.local_search_floor\(local\);",
                        r"let \1 = local_search_floor(me, local);\n        proof { lemma_newest_bounded(me.activations@, owner_of(local), me.activations@.len() as int, me.env@.len() as int); }", min_matches=0),
                     Rw("R2", r"self\.local_search_floor\(local\)", "local_search_floor(me, local)", min_matches=0),
                     Rw("R10e", r"for scope in self\.env\[([\w .+\-()]+)\.\.\]\.iter_mut\(\)\.rev\(\) \{", OUTER, min_matches=0),
                     Rw("R10e", r"for scope in self\.env(?:\[\.\.\])?\.iter_mut\(\)\.rev\(\) \{", outer("0"), min_matches=0),
                     Rw("R10f", r"if let Some\(slot\) = scope\.iter_mut\(\)\.rev\(\)\.find\(\|slot\| slot\.id == Some\(local\)\) \{", FIND, min_matches=1),
                     Rw("R10f", r"Self::overwrite_slot\(&mut slot\.value, val, has_frame, pool, frame\);\s*return Ok\(\(\)\);", "return Ok((si, sj));", min_matches=1),
                     Rw("R8", r"Err\(RuntimeError::new\(RuntimeErrorKind::UndeclaredVariable, span\)\)", "Err(())", min_matches=1)],
           attrs="#[verifier::loop_isolation(false)] #[verifier::allow_complex_invariants]", vacuity="-", real_name="Runtime::assign_bound_local"),
    ],
)
