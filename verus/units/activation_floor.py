import sys, pathlib
sys.path.insert(0, str(pathlib.Path(__file__).resolve().parent.parent))
from vlib.vextract import VUnit, Fn, Const, Raw, Rw, Enum, Block, Struct

# C04 (after aa88211): where a lookup by local id starts.  The searches themselves (lookup_local_env, lookup_local_mut,
# assign_bound_local) are `env[floor..].iter().rev().find_map(..)` chains and stay outside; the floor is decided here.

PRE = r'''
#[derive(Clone, Copy)] pub struct LocalId { pub g: Ghost<int> }
pub struct Ra { pub activations: Vec<(u32, usize)>, pub has_facts: bool }
pub uninterp spec fn owner_of(l: LocalId) -> u32;                // facts.locals[local].owner
impl Ra {
    // `self.facts()` then `facts.locals[local.0 as usize].owner` (None: no analysis facts installed, lookups then go by name)
    #[verifier::external_body]
    pub fn owner(&self, l: LocalId) -> (r: Option<u32>) ensures r is Some == self.has_facts, r is Some ==> r->Some_0 == owner_of(l) { unimplemented!() }
}
// the newest mark of function f among the first n marks, if any
pub open spec fn newest(a: Seq<(u32, usize)>, f: u32, n: int) -> Option<usize> decreases n {
    if n <= 0 { None } else if a[n - 1].0 == f { Some(a[n - 1].1) } else { newest(a, f, n - 1) }
}
'''

UNIT = VUnit(
    name="activation_floor",
    props=["C04"],
    source="src/runtime.rs",
    preamble=PRE,
    trusted=["activation marks are (u32, usize) pairs (FunctionId is a u32 newtype); the facts table is a shim returning the local's owner",
             "R10d: `X.iter().rev().find_map(|(function, base)| (COND).then_some(*base)).unwrap_or(0)` is written as the loop std defines it to be: from the last element to the first, the first element satisfying COND gives the value, 0 if none",
             "the three searches over env[floor..] are not extracted (iterator chains over a slice of Vecs with closures)"],
    items=[
        Fn("local_search_floor", impl="impl Runtime",
           sig="fn local_search_floor(me: &Ra, local: LocalId) -> (res: usize)", expect_sig=r"fn local_search_floor\(&self, local: LocalId\) -> usize",
           ensures=["!me.has_facts ==> res == 0",
                    # the parameter scope of the NEWEST activation of the function that owns the local; the whole stack when it has none
                    "me.has_facts ==> res == (match newest(me.activations@, owner_of(local), me.activations@.len() as int) { Some(b) => b, None => 0usize })"],
           rewrites=[Rw("R9", r"let Some\(facts\) = self\.facts\(\) else \{\s*return 0;\s*\};\s*let owner = facts\.locals\[local\.0 as usize\]\.owner;", "let Some(owner) = me.owner(local) else { return 0; };", min_matches=1),
                     Rw("R10d", r"self\.activations\s*\.iter\(\)\s*\.rev\(\)\s*\.find_map\(\|\(function, base\)\| \(\*function == owner\)\.then_some\(\*base\)\)\s*\.unwrap_or\(0\)",
                        "{ let mut r: usize = 0; let mut i: usize = me.activations.len();\n"
                        "          while i > 0\n"
                        "              invariant_except_break r == 0, newest(me.activations@, owner, me.activations@.len() as int) == newest(me.activations@, owner, i as int),\n"
                        "              invariant i <= me.activations@.len(),\n"
                        "              ensures r == (match newest(me.activations@, owner, me.activations@.len() as int) { Some(b) => b, None => 0usize }),\n"
                        "              decreases i,\n"
                        "          { i = i - 1; let (function, base) = &me.activations[i]; if *function == owner { r = *base; break; } }\n"
                        "          r }", min_matches=0),
                     Rw("R2", r"self\.activations", "me.activations", min_matches=0)],
           vacuity="-", real_name="Runtime::local_search_floor"),
    ],
)
