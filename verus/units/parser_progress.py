import sys, pathlib
sys.path.insert(0, str(pathlib.Path(__file__).resolve().parent.parent))
from vlib.vextract import VUnit, Fn, Const, Raw, Rw, Enum, Block, Struct

PRE = r'''
pub struct StrV { pub g: Ghost<int> }
'''

MODEL = r'''
// The parser's view of its input: the lexer's token sequence and how many tokens have been consumed.  `self.cur` is toks[pos], or EOF
// once the lexer is exhausted (bump() then keeps returning EOF: `self.lexer.next().unwrap_or(EOF)`).
pub struct P { pub toks: Ghost<Seq<Token>>, pub pos: Ghost<nat> }
impl P {
    pub open spec fn cur(&self) -> Token { if self.pos@ < self.toks@.len() { self.toks@[self.pos@ as int] } else { Token::EOF } }
    pub open spec fn left(&self) -> nat { if self.pos@ < self.toks@.len() { (self.toks@.len() - self.pos@) as nat } else { 0 } }
    #[verifier::external_body]
    pub fn cur_token(&self) -> (r: &Token) ensures *r == self.cur() { unimplemented!() }
    #[verifier::external_body]
    pub fn bump(&mut self)
        ensures final(self).toks@ == old(self).toks@,
                old(self).pos@ < old(self).toks@.len() ==> final(self).pos@ == old(self).pos@ + 1,
                old(self).pos@ >= old(self).toks@.len() ==> final(self).pos@ == old(self).pos@,
    { unimplemented!() }
}
'''

UNIT = VUnit(
    name="parser_progress",
    props=["C07"],
    source="src/syntax/parser.rs",
    preamble=PRE,
    trusted=["the token stream is a ghost sequence; `self.cur.token` is the shim P::cur_token() and `self.bump()` the shim P::bump() (one token consumed unless the lexer is exhausted)",
             "diagnostic emission and AST allocation are dropped from the recovery arm (R6/R8): only token consumption is decided"],
    items=[
        Enum("Token", source="src/syntax/token.rs", derive="", rewrites=[Rw("R12", r"ArenaCow<'a>", "StrV"), Rw("R12", r"&'a str", "StrV"), Rw("R1", r"#\[default\]", "")]),
        Raw(MODEL),
        # panic-mode recovery: never moves backwards and terminates on every token sequence
        Fn("synchronize", impl="impl Parser",
           sig="fn synchronize(p: &mut P)", expect_sig=r"fn synchronize\(&mut self\)",
           # (which tokens are synchronisation points is the parser's choice and not constrained; EOF must be one, or the loop
           #  would not terminate: that is the `decreases`)
           ensures=["final(p).toks@ == old(p).toks@", "final(p).pos@ >= old(p).pos@"],
           loops={1: {"invariant": ["p.toks@ == old(p).toks@", "p.pos@ >= old(p).pos@"], "decreases": "p.left()"}},
           rewrites=[Rw("R2", r"self\.cur\.token", "*p.cur_token()", min_matches=1), Rw("R2", r"self\.bump\(\)", "p.bump()", min_matches=1)],
           vacuity="-", real_name="Parser::synchronize"),
        # the "expected statement" recovery arm of parse_statement consumes at least one token whenever there is one left, so the
        # statement loops that call parse_statement cannot spin on a token no rule accepts
        Block("expected_statement_recovery", within="parse_statement", impl="impl Parser",
              anchor=r"_ => (?=\{\s*let span = self\.cur\.span;\s*self\.emit_error\(\s*span,\s*SyntaxError::ExpectedStatement)",
              sig="fn expected_statement_recovery(p: &mut P)",
              requires=["old(p).pos@ < old(p).toks@.len()"],
              ensures=["final(p).pos@ > old(p).pos@", "final(p).toks@ == old(p).toks@"],
              rewrites=[Rw("R6", r"let span = self\.cur\.span;\s*self\.emit_error\(\s*span,\s*SyntaxError::ExpectedStatement,.*?\}\],\s*\);", "", min_matches=1),
                        Rw("R8", r"let expr = self\.alloc\(Expr::Null\(Range::default\(\)\)\);\s*self\.alloc\(Stmt::Expression \{ expr, span: Range::default\(\) \}\)", "", min_matches=1),
                        Rw("R2", r"self\.cur\.token", "*p.cur_token()", min_matches=0),
                        Rw("R2", r"self\.(bump|synchronize)\(\)", r"\1(p)", min_matches=2)],
              real_name="Parser::parse_statement (expected-statement recovery arm)"),
        Raw("fn bump(p: &mut P) ensures final(p).toks@ == old(p).toks@, old(p).pos@ < old(p).toks@.len() ==> final(p).pos@ == old(p).pos@ + 1, old(p).pos@ >= old(p).toks@.len() ==> final(p).pos@ == old(p).pos@ { p.bump() }"),
    ],
)
