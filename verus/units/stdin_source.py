import sys, pathlib
sys.path.insert(0, str(pathlib.Path(__file__).resolve().parent.parent))
from vlib.vextract import VUnit, Fn, Const, Raw, Rw, Enum, Block, Struct

PRE = r'''
// ---------------------------------------------------------------------------------------------------------------------
// Model of `R: Read` (std's documented contract): the reader holds the not-yet-read input `rest()`.
//   read(buf) returns Ok(n): n bytes -- ANY number from 1 up to min(buf.len(), rest().len()): pipes and terminals deliver short reads at
//             arbitrary points -- were copied to the front of buf and removed from rest(); Ok(0) only at end of input (buf is
//             non-empty); or an error (possibly Interrupted), which consumes nothing.
// ---------------------------------------------------------------------------------------------------------------------
pub struct IoError { pub interrupted: bool }
impl IoError {
    pub fn is_interrupted(&self) -> (r: bool) ensures r == self.interrupted { self.interrupted }
}
#[verifier::external_body]
pub struct Reader { _p: u8 }
impl Reader {
    pub uninterp spec fn rest(&self) -> Seq<u8>;
    #[verifier::external_body]
    pub fn read(&mut self, buf: &mut Vec<u8>) -> (r: Result<usize, IoError>)
        requires old(buf)@.len() > 0,
        ensures final(buf)@.len() == old(buf)@.len(),
                r is Err ==> final(self).rest() == old(self).rest(),
                r is Ok ==> r->Ok_0 <= old(buf)@.len() && r->Ok_0 <= old(self).rest().len()
                            && (r->Ok_0 == 0 <==> old(self).rest().len() == 0)
                            && final(buf)@.subrange(0, r->Ok_0 as int) == old(self).rest().subrange(0, r->Ok_0 as int)
                            && final(self).rest() == old(self).rest().skip(r->Ok_0 as int),
    { unimplemented!() }
}
// `&chunk[..n]`
#[verifier::external_body]
fn prefix(a: &Vec<u8>, j: usize) -> (r: &[u8])
    requires j <= a@.len(),
    ensures r@ == a@.subrange(0, j as int),
{ &a[..j] }
#[verifier::external_body]
fn extend_from_slice(v: &mut Vec<u8>, s: &[u8])
    ensures final(v)@ == old(v)@ + s@,
{ v.extend_from_slice(s) }
'''

UNIT = VUnit(
    name="stdin_source",
    props=["C14"],
    source="src/bin/naija/cmd.rs",
    preamble=PRE,
    trusted=["std::io::Read is the model above (its documented contract); the 8 KiB stack array is a Vec of the same length; `Vec<u8, &Arena>` is a Vec<u8>",
             "partial correctness: an endless run of Interrupted errors never terminates (as in std)"],
    items=[
        # the program text the CLI runs from standard input is the WHOLE input, however the OS splits it across reads (a short read is not
        # end of input), with Interrupted retried; any other error ends the run with a failure
        Block("read_all_stdin", within="run_stdin", impl=None,
              anchor=r"\n    loop ",
              sig="#[verifier::exec_allows_no_decreases_clause]\nfn read_all_stdin(reader: &mut Reader, Ghost(total): Ghost<Seq<u8>>) -> (res: Result<Vec<u8>, ()>)",
              prologue="    let mut buf: Vec<u8> = Vec::new();\n    let mut chunk: Vec<u8> = Vec::new();\n    chunk.resize(8192, 0u8);\n    loop\n        invariant chunk@.len() == 8192, buf@ + reader.rest() =~= total,\n        ensures reader.rest().len() == 0,\n    {",
              epilogue="    }\n    Ok(buf)",
              requires=["old(reader).rest() == total"],
              ensures=["res is Ok ==> res->Ok_0@ =~= total"],
              rewrites=[Rw("R5", r"buf\.extend_from_slice\(&chunk\[\.\.n\]\)", "extend_from_slice(&mut buf, prefix(&chunk, n))", min_matches=1),
                        Rw("R2", r"err\.kind\(\) == io::ErrorKind::Interrupted", "err.is_interrupted()", min_matches=1),
                        Rw("R6", r"print_error!\([^;]*\);", "", min_matches=1),
                        Rw("R6", r"return ExitCode::FAILURE;", "return Err(());", min_matches=1)],
              real_name="naija::cmd::run_stdin (the read loop)"),
    ],
)
