import sys, pathlib
sys.path.insert(0, str(pathlib.Path(__file__).resolve().parent.parent))
from vlib.vextract import VUnit, Fn, Const, Raw, Rw, Enum, Block, Struct

# C03: a statement is only ever skipped when its expression is classed PureNoTrap, so an expression classed PureNoTrap must be one whose
# evaluation cannot end in a runtime error.  `may_trap` below says, from the RUNTIME's side, when evaluation can raise one:
#   - an operator, method or command() applied to an operand whose type the literals do not fix can raise TypeMismatch / a method error
#     (V:eval_ops:binary_dispatch, unary_dispatch; V:eval_methods:eval_member_call -- each operator and method has a refused operand type),
#     `divide` / `mod` can raise DivisionByZero whatever the types, an index can be out of bounds, a member that is not called is an error;
#   - a variable owned by another function can be read before its declaration has run (UndeclaredVariable), in an expression or a `{name}`;
#   - an expression built from literals and operators alone was typed exactly by the static rules (V:static_rules), so once accepted it cannot.
# The real classify_expr / is_constant_expr / var_read_class are verified against it.

PRE = r'''
#[derive(Clone, Copy)] pub struct StrH { pub g: Ghost<int> }
#[derive(Clone, Copy)] pub struct SpanH { pub g: Ghost<int> }
#[derive(Clone, Copy)] pub struct LocalId { pub g: Ghost<int> }
'''

MODEL = r'''
// element lists are opaque: what the folds over them compute is stated on the shims (R11), not unfolded
pub struct ArgList<'ast> { pub args: Elems<'ast> }
pub struct Elems<'ast> { pub g: Ghost<int>, pub p: core::marker::PhantomData<&'ast u8> }
pub struct Segs<'ast> { pub g: Ghost<int>, pub p: core::marker::PhantomData<&'ast u8> }
pub struct MemberBuiltinH { pub g: Ghost<int> }

pub open spec fn rank(c: ExprClass) -> int { match c { ExprClass::PureNoTrap => 0, ExprClass::PureMayTrap => 1, ExprClass::Impure => 2 } }
impl ExprClass {
    // least upper bound of the chain PureNoTrap < PureMayTrap < Impure: K:effects:expr_class_join__lattice (all 27 triples)
    #[verifier::external_body]
    pub fn join(self, other: ExprClass) -> (r: ExprClass) ensures rank(r) == (if rank(self) >= rank(other) { rank(self) } else { rank(other) }) { unimplemented!() }
}

// --- the resolver, as far as classification reads it
pub struct Rc { pub g: Ghost<int> }
// in scope and owned by the function being checked
pub open spec fn own_local(me: &Rc, name: StrH) -> bool { me.found(name) is Some && me.owned(me.found(name)->Some_0.1) }
pub uninterp spec fn segs_may_trap(me: &Rc, s: int) -> bool;                 // some `{name}` of the string names a variable that is not own_local
pub uninterp spec fn elems_may_trap(me: &Rc, e: int) -> bool;                // may_trap of some element
pub uninterp spec fn elems_closed(e: int) -> bool;                           // closed of every element
pub uninterp spec fn global_builtin_of(name: StrH) -> Option<GlobalBuiltin>;

// built from literals and operators only
pub open spec fn closed<'ast>(e: &Expr<'ast>) -> bool decreases e {
    match *e {
        Expr::Number(..) | Expr::Bool(..) | Expr::Null(..) => true,
        Expr::String { parts, .. } => parts is Static,
        Expr::Array { elements, .. } => elems_closed(elements.g@),
        Expr::Binary { lhs, rhs, .. } => closed(lhs) && closed(rhs),
        Expr::Unary { expr, .. } => closed(expr),
        _ => false,
    }
}
// evaluating the expression can end in a runtime error raised by the expression itself (user-function bodies are the summaries' business:
// K:opt:stmt_effective_class__contract adds may-trap for every statement that calls one)
pub open spec fn may_trap<'ast>(me: &Rc, e: &Expr<'ast>) -> bool decreases e {
    match *e {
        Expr::Number(..) | Expr::Bool(..) | Expr::Null(..) => false,
        Expr::Var(name, _) => !own_local(me, name),
        Expr::String { parts, .. } => match parts { StringParts::Static(_) => false, StringParts::Interpolated(segs) => segs_may_trap(me, segs.g@) },
        Expr::Array { elements, .. } => elems_may_trap(me, elements.g@),
        Expr::Index { .. } => true,
        Expr::Binary { op, lhs, rhs, .. } => may_trap(me, lhs) || may_trap(me, rhs) || op is Divide || op is Mod || !(closed(lhs) && closed(rhs)),
        Expr::Unary { expr, .. } => may_trap(me, expr) || !closed(expr),
        Expr::Member { .. } => true,
        Expr::Call { callee, args, .. } => elems_may_trap(me, args.args.g@) || match *callee {
            Expr::Var(f, _) => global_builtin_of(f) == Some(GlobalBuiltin::Command) && !elems_closed(args.args.g@),
            Expr::Member { object, .. } => may_trap(me, object) || !(closed(object) && elems_closed(args.args.g@)),
            _ => true,
        },
    }
}

impl Rc {
    #[verifier::external_body]
    pub fn lookup_var_info(&self, name: &StrH) -> (r: Option<(u8, LocalId)>) ensures r == self.found(*name) { unimplemented!() }
    // self.facts.locals[local.0 as usize].owner == self.current_owner
    #[verifier::external_body]
    pub fn owned_by_current(&self, local: LocalId) -> (r: bool) ensures r == self.owned(local) { unimplemented!() }
    pub uninterp spec fn found(&self, name: StrH) -> Option<(u8, LocalId)>;
    pub uninterp spec fn owned(&self, l: LocalId) -> bool;
    #[verifier::external_body]
    pub fn lookup_func_is_none(&self, name: &StrH) -> (r: bool) { unimplemented!() }
    // R11: `segments.iter().fold(PureNoTrap, |class, segment| match segment { Literal => class, Variable(name) => class.join(self.var_read_class(name)) })`
    #[verifier::external_body]
    pub fn segments_class<'ast>(&self, s: &Segs<'ast>) -> (r: ExprClass) ensures r is PureNoTrap ==> !segs_may_trap(self, s.g@) { unimplemented!() }
    // R11: `<list>.iter().fold(PureNoTrap, |class, x| class.join(self.classify_expr(x)))` (recursion into each element under classify_expr's contract)
    #[verifier::external_body]
    pub fn elements_class<'ast>(&self, s: &Elems<'ast>) -> (r: ExprClass) ensures r is PureNoTrap ==> !elems_may_trap(self, s.g@) { unimplemented!() }
}
// R11: `<list>.iter().all(|x| Self::is_constant_expr(x))` (recursion into each element under is_constant_expr's contract)
#[verifier::external_body]
pub fn all_constant<'ast>(s: &Elems<'ast>) -> (r: bool) ensures r == elems_closed(s.g@) { unimplemented!() }
#[verifier::external_body]
pub fn global_builtin_from_name(name: &StrH) -> (r: Option<GlobalBuiltin>) ensures r == global_builtin_of(*name) { unimplemented!() }
#[verifier::external_body]
pub fn member_builtin_from_name(name: &StrH) -> (r: Option<MemberBuiltinH>) { unimplemented!() }
// any class: which member builtin it is does not matter to may_trap (every method refuses some receiver)
#[verifier::external_body]
pub fn member_builtin_class(b: MemberBuiltinH) -> (r: ExprClass) { unimplemented!() }
'''

EXPR_RW = [Rw("R12", r"ExprRef<'ast>", "&'ast Expr<'ast>"), Rw("R12", r"\bSpan\b", "SpanH"), Rw("R12", r"&'ast str", "StrH"),
           Rw("R12", r"ArgListRef<'ast>", "&'ast ArgList<'ast>"), Rw("R12", r"&'ast \[&'ast Expr<'ast>\]", "&'ast Elems<'ast>")]

UNIT = VUnit(
    name="trap_class",
    props=["C03"],
    source="src/resolver.rs",
    preamble=PRE,
    trusted=["the AST enums are copied from the source with leaf payloads opaque; element, argument and segment lists are opaque and the three folds over them are cut out as calls whose contract is the fold of the per-element contract (R11)",
             "`may_trap` is the runtime's side of the argument: that each operator and method refuses some operand type is V:eval_ops / V:eval_methods, that literal-only expressions are typed exactly is V:static_rules; the link is by citation, not by a shared definition",
             "ExprClass::join is used through its K contract (least upper bound)"],
    items=[
        Enum("BinaryOp", source="src/syntax/parser.rs"), Enum("UnaryOp", source="src/syntax/parser.rs"),
        Enum("StringParts", source="src/syntax/parser.rs", derive="", generics="<'ast>", rewrites=[Rw("R12", r"&'ast str", "StrH"), Rw("R12", r"&'ast \[StringSegment<'ast>\]", "&'ast Segs<'ast>")]),
        Enum("Expr", source="src/syntax/parser.rs", derive="", generics="<'ast>", rewrites=EXPR_RW),
        Enum("ExprClass", source="src/analysis/effects.rs", derive="#[derive(Clone, Copy)]"),
        Enum("GlobalBuiltin", source="src/builtins/mod.rs"),
        Raw(MODEL),
        # the global builtins a dead store may be pruned around: only typeof / to_string / command are ever PureNoTrap; output and input are Impure
        Fn("global_builtin_class", source="src/analysis/effects.rs",
           sig="fn global_builtin_class(builtin: GlobalBuiltin) -> (res: ExprClass)", expect_sig=r"pub const fn global_builtin_class\(builtin: GlobalBuiltin\) -> ExprClass",
           ensures=["res is PureNoTrap ==> (builtin is TypeOf || builtin is ToString || builtin is Command)",
                    "(builtin is Shout || builtin is ReadLine) ==> res is Impure"],
           vacuity="-", real_name="effects::global_builtin_class"),
        # a variable read cannot fail only when the variable is in scope and owned by the function being checked
        Fn("var_read_class", impl="impl Resolver",
           sig="fn var_read_class(me: &Rc, name: &StrH) -> (res: ExprClass)", expect_sig=r"fn var_read_class\(&self, name: &str\) -> ExprClass",
           ensures=["res is PureNoTrap ==> own_local(me, *name)", "res is PureNoTrap || res is PureMayTrap"],
           rewrites=[Rw("R9", r"self\.lookup_var_info\(name\)", "me.lookup_var_info(name)", min_matches=1),
                     Rw("R9", r"self\.facts\.locals\[local\.0 as usize\]\.owner == self\.current_owner", "me.owned_by_current(local)", min_matches=0)],
           vacuity="-", real_name="Resolver::var_read_class"),
        Fn("is_constant_expr", impl="impl Resolver",
           sig="fn is_constant_expr<'ast>(expr: &'ast Expr<'ast>) -> (res: bool)", expect_sig=r"fn is_constant_expr\(expr: ExprRef<'ast>\) -> bool",
           ensures=["res == closed(expr)"], decreases="expr",
           rewrites=[Rw("R11", r"elements\.iter\(\)\.all\(\|e\| Self::is_constant_expr\(e\)\)", "all_constant(elements)", min_matches=1),
                     Rw("R8", r"Self::is_constant_expr\(", "is_constant_expr(", min_matches=3)],
           vacuity="-", real_name="Resolver::is_constant_expr"),
        Fn("classify_expr", impl="impl Resolver",
           sig="fn classify_expr<'ast>(me: &Rc, expr: &'ast Expr<'ast>) -> (res: ExprClass)", expect_sig=r"fn classify_expr\(&self, expr: ExprRef<'ast>\) -> ExprClass",
           ensures=["res is PureNoTrap ==> !may_trap(me, expr)"], decreases="expr",
           rewrites=[Rw("R11", r"segments\.iter\(\)\.fold\(ExprClass::PureNoTrap, \|class, segment\| match segment \{\s*StringSegment::Literal\(\.\.\) => class,\s*StringSegment::Variable\(name\) => class\.join\(self\.var_read_class\(name\)\),\s*\}\)", "me.segments_class(segments)", min_matches=1),
                     Rw("R11", r"elements\.iter\(\)\.fold\(ExprClass::PureNoTrap, \|class, element\| \{\s*class\.join\(self\.classify_expr\(element\)\)\s*\}\)", "me.elements_class(elements)", min_matches=1),
                     Rw("R11", r"args\s*\.args\s*\.iter\(\)\s*\.fold\(ExprClass::PureNoTrap, \|class, arg\| class\.join\(self\.classify_expr\(arg\)\)\)", "me.elements_class(&args.args)", min_matches=1),
                     Rw("R11", r"args\.args\.iter\(\)\.all\(\|arg\| Self::is_constant_expr\(arg\)\)", "all_constant(&args.args)", min_matches=1),
                     Rw("R9", r"self\.var_read_class\(name\)", "var_read_class(me, name)", min_matches=1),
                     Rw("R8", r"self\s*\.classify_expr\(", "classify_expr(me, ", min_matches=6),
                     Rw("R8", r"Self::is_constant_expr\(", "is_constant_expr(", min_matches=0),
                     Rw("R9", r"GlobalBuiltin::from_name\(func_name\)", "global_builtin_from_name(func_name)", min_matches=1),
                     Rw("R9", r"MemberBuiltin::from_name\(field\)", "member_builtin_from_name(field)", min_matches=1),
                     Rw("R8", r"effects::(global_builtin_class|member_builtin_class)\(", r"\1(", min_matches=2),
                     Rw("R9", r"self\.lookup_func\(func_name\)\.is_none\(\)", "me.lookup_func_is_none(func_name)", min_matches=1)],
           vacuity="-", real_name="Resolver::classify_expr"),
    ],
)
