import sys, pathlib
sys.path.insert(0, str(pathlib.Path(__file__).resolve().parent.parent))
from vlib.vextract import VUnit, Fn, Const, Raw, Rw, Enum, Block, Struct

PRE = r'''
pub struct StrH { pub g: Ghost<int> }
pub struct SpanH { pub g: Ghost<int> }
pub struct ParamsH { pub g: Ghost<int> }
pub struct ExprH { pub g: Ghost<int> }
// BlockRef: a block of the AST; stmts@ = the ids of the statements directly inside it
pub struct BlockH { pub id: Ghost<int>, pub stmts: Ghost<Set<int>> }
#[derive(Clone, Copy)] pub struct FunctionId(pub u32);
'''

MODEL = r'''
// the explicit stack of count_function: `pushed` = ids of all statements ever pushed
pub struct Stack { pub pushed: Ghost<Set<int>> }
impl Stack {
    // R11: `for &nested in B.stmts.iter().rev() { stack.push(nested); }`
    #[verifier::external_body]
    pub fn push_all_rev(&mut self, b: &BlockH) ensures final(self).pushed@ == old(self).pushed@.union(b.stmts@) { unimplemented!() }
}
pub struct Counter { pub counted: Ghost<Set<int>> }   // bodies whose function has been handed to count_function
impl Counter {
    pub uninterp spec fn has_function(&self, body: &BlockH) -> bool;
    #[verifier::external_body]
    pub fn function_by_body(&self, body: &BlockH) -> (r: Option<FunctionId>) ensures r is Some == self.has_function(body) { unimplemented!() }
    // the recursive call, by what it does to the record
    #[verifier::external_body]
    pub fn count_function_of(&mut self, body: &BlockH, f: FunctionId) ensures final(self).counted@ == old(self).counted@.insert(body.id@), forall|b: &BlockH| final(self).has_function(b) == old(self).has_function(b) { unimplemented!() }
}
// the statements directly nested in s
pub open spec fn children(s: Stmt) -> Set<int> {
    match s {
        Stmt::If { then_b, else_b, .. } => match else_b { Some(e) => then_b.stmts@.union(e.stmts@), None => then_b.stmts@ },
        Stmt::Loop { body, .. } => body.stmts@,
        Stmt::Block { block, .. } => block.stmts@,
        _ => Set::empty(),
    }
}
'''

UNIT = VUnit(
    name="count_walk",
    props=["C18"],
    source="src/analysis/cfg.rs",
    preamble=PRE,
    trusted=["the AST is abstract (a block is the set of ids of its statements); the Stmt enum is copied from src/syntax/parser.rs with payload types replaced by opaque handles",
             "each push loop is cut out as one opaque call that pushes every statement of that block (R11); the recursive count_function call is a shim recording the body"],
    items=[
        Enum("Stmt", source="src/syntax/parser.rs", derive="", rewrites=[
            Rw("R12", r"&'ast str", "StrH"), Rw("R12", r"\bSpan\b", "SpanH"), Rw("R12", r"ParamListRef<'ast>", "ParamsH"),
            Rw("R12", r"BlockRef<'ast>", "BlockH"), Rw("R12", r"ExprRef<'ast>", "ExprH")]),
        Raw(MODEL),
        # nested-function discovery for the analysis size limits (C18: the counts decide whether the passes run at all): visiting a statement
        # pushes EVERY statement nested directly in it -- both branches of an if, a loop body, a block -- and hands a nested function
        # definition to count_function, so no function anywhere in the tree is left out of the count
        Block("visit_statement", within="count_function", impl="impl CountProgramBuilder",
              anchor=r"while let Some\(stmt\) = stack\.pop\(\) ",
              sig="fn visit_statement(me: &mut Counter, stmt: &Stmt, stack: &mut Stack)",
              ensures=["children(*stmt).subset_of(final(stack).pushed@)", "old(stack).pushed@.subset_of(final(stack).pushed@)",
                       "old(me).counted@.subset_of(final(me).counted@)",
                       "stmt matches Stmt::FunctionDef { body, .. } ==> (old(me).has_function(&body) ==> final(me).counted@.contains(body.id@))"],
              rewrites=[Rw("R9", r"self\.facts\.function_by_body\(body\)", "me.function_by_body(body)", min_matches=1),
                        Rw("R9", r"self\.count_function\(function\)", "me.count_function_of(body, function)", min_matches=1),
                        Rw("R11", r"for &nested in (\w+)\.stmts\.iter\(\)\.rev\(\) \{\s*stack\.push\(nested\);\s*\}", r"stack.push_all_rev(\1);", min_matches=1)],
              real_name="CountProgramBuilder::count_function (body of the discovery loop)"),
    ],
)
