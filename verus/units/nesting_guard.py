import sys, pathlib
sys.path.insert(0, str(pathlib.Path(__file__).resolve().parent.parent))
from vlib.vextract import VUnit, Fn, Const, Raw, Rw, Enum, Block, Struct

PRE = r'''
global size_of usize == 8;
#[derive(Clone, Copy)] pub struct StrH { pub g: Ghost<int> }
#[derive(Clone, Copy)] pub struct SpanH { pub g: Ghost<int> }
pub struct PartsH { pub g: Ghost<int> }
pub struct ParamsH { pub g: Ghost<int> }
'''

MODEL = r'''
// the tree: nodes are identified by ghost ids; what matters is which nodes are directly below which
pub struct BlockT<'ast> { pub stmts: Vec<&'ast Stmt<'ast>>, pub span: SpanH }
pub struct ArgList<'ast> { pub args: Vec<&'ast Expr<'ast>> }
pub struct Elems<'ast> { pub v: Vec<&'ast Expr<'ast>> }
impl<'ast> Expr<'ast> {
    #[verifier::external_body] pub fn span(&self) -> (r: SpanH) { unimplemented!() }
}
pub enum Node<'ast> { Block(&'ast BlockT<'ast>), Stmt(&'ast Stmt<'ast>), Expr(&'ast Expr<'ast>) }

// the explicit stack of find_too_deep: the multiset of (node, depth) entries ever pushed is what the step contract talks about
pub struct Stack<'ast> { pub pushed: Ghost<Seq<(Node<'ast>, u32)>> }
impl<'ast> Stack<'ast> {
    #[verifier::external_body]
    pub fn push(&mut self, e: (Node<'ast>, u32)) ensures final(self).pushed@ == old(self).pushed@.push(e) { unimplemented!() }
    // R11: `for &s in <slice> { stack.push((Node::X(s), below)); }` -- every element of the slice, each with that depth
    #[verifier::external_body]
    pub fn push_stmts(&mut self, b: &'ast BlockT<'ast>, below: u32)
        ensures final(self).pushed@ == old(self).pushed@ + b.stmts@.map_values(|s: &'ast Stmt<'ast>| (Node::Stmt(s), below)) { unimplemented!() }
    #[verifier::external_body]
    pub fn push_exprs(&mut self, v: &Vec<&'ast Expr<'ast>>, below: u32)
        ensures final(self).pushed@ == old(self).pushed@ + v@.map_values(|e: &'ast Expr<'ast>| (Node::Expr(e), below)) { unimplemented!() }
}
// the nodes directly below a node
pub open spec fn children<'ast>(n: Node<'ast>) -> Seq<Node<'ast>> {
    match n {
        Node::Block(b) => b.stmts@.map_values(|s: &'ast Stmt<'ast>| Node::Stmt(s)),
        Node::Stmt(s) => match *s {
            Stmt::FunctionDef { body, .. } => seq![Node::Block(body)],
            Stmt::Assign { expr, .. } | Stmt::AssignExisting { expr, .. } | Stmt::Expression { expr, .. } => seq![Node::Expr(expr)],
            Stmt::AssignIndex { target, expr, .. } => seq![Node::Expr(target), Node::Expr(expr)],
            Stmt::If { cond, then_b, else_b, .. } => match else_b { Some(e) => seq![Node::Expr(cond), Node::Block(then_b), Node::Block(e)], None => seq![Node::Expr(cond), Node::Block(then_b)] },
            Stmt::Loop { cond, body, .. } => seq![Node::Expr(cond), Node::Block(body)],
            Stmt::Block { block, .. } => seq![Node::Block(block)],
            Stmt::Return { expr, .. } => match expr { Some(e) => seq![Node::Expr(e)], None => Seq::empty() },
            _ => Seq::empty(),
        },
        Node::Expr(e) => match *e {
            Expr::Index { array, index, .. } => seq![Node::Expr(array), Node::Expr(index)],
            Expr::Binary { lhs, rhs, .. } => seq![Node::Expr(lhs), Node::Expr(rhs)],
            Expr::Call { callee, args, .. } => seq![Node::Expr(callee)] + args.args@.map_values(|a: &'ast Expr<'ast>| Node::Expr(a)),
            Expr::Array { elements, .. } => elements.v@.map_values(|a: &'ast Expr<'ast>| Node::Expr(a)),
            Expr::Unary { expr, .. } => seq![Node::Expr(expr)],
            Expr::Member { object, .. } => seq![Node::Expr(object)],
            _ => Seq::empty(),
        },
    }
}
// --- the runtime's stack probe
pub struct RtErr { pub g: Ghost<int> }
pub struct Rs { pub stack_base: usize, pub sp: Ghost<usize>, pub probed: Ghost<bool> }
pub struct ValOut { pub g: Ghost<int> }
pub struct ExprIn { pub g: Ghost<int> }
impl ExprIn { #[verifier::external_body] pub fn span(&self) -> (r: SpanH) { unimplemented!() } }
pub closed spec fn budget() -> int { STACK_BUDGET as int }        // the real constant (non-wasm definition)
impl Rs {
    // `&raw const probe as usize`: the address of a local of check_stack's own frame, i.e. (about) the current stack pointer
    #[verifier::external_body] pub fn probe_address(&self) -> (r: usize) ensures r == self.sp@ { unimplemented!() }
    #[verifier::external_body] pub fn stack_overflow(&self, s: SpanH) -> (r: RtErr) { unimplemented!() }
    // everything eval_expr does after the probe (the dispatch on the expression, which recurses)
    #[verifier::external_body] pub fn eval_dispatch(&mut self, e: &ExprIn) -> (r: Result<ValOut, RtErr>)
        requires old(self).probed@                                  // never entered without a probe of THIS activation
    { unimplemented!() }
}
// check_stack by its contract, recording that this activation has probed
#[verifier::external_body]
fn check_stack_probe(me: &mut Rs, s: SpanH) -> (r: Result<(), RtErr>) ensures r is Ok ==> final(me).probed@ { unimplemented!() }
// the statement executor's view: expressions are evaluated THROUGH eval_expr (which probes); the call machinery below it is not an entry point
pub struct Xs { pub g: Ghost<int> }
pub struct CallH { pub g: Ghost<int> }
pub enum FlowOut { Return(ValOut) }
impl Xs {
    #[verifier::external_body] pub fn eval_expr<'x>(&mut self, e: &'x Expr<'x>) -> (r: Result<ValOut, RtErr>) { unimplemented!() }
    // eval_function_call / eval_member_call / eval_builtin_call recurse into the callee's body: reached from eval_expr only, so that every
    // cycle of calls passes a probe
    #[verifier::external_body] pub fn eval_function_call<'x>(&mut self, c: &'x Expr<'x>) -> (r: Result<ValOut, RtErr>) requires false { unimplemented!() }
}
#[verifier::external_body] fn null_out() -> (r: ValOut) { unimplemented!() }
#[verifier::external_body]
fn wrapping_sub(a: usize, b: usize) -> (r: usize) ensures r == (if a >= b { a - b } else { a + 0x1_0000_0000_0000_0000 - b }) { a.wrapping_sub(b) }
// --- the parser's own recursion guard
pub struct Pg { pub nesting: u32, pub gave_up: bool, pub deepest_call: Ghost<nat> }
pub struct ExprOut { pub g: Ghost<int> }
pub struct BlockOut { pub g: Ghost<int> }
impl Pg {
    #[verifier::external_body] pub fn cur_span(&self) -> (r: SpanH) { unimplemented!() }
    #[verifier::external_body] pub fn give_up_on_nesting(&mut self, s: SpanH) ensures final(self).gave_up, final(self).nesting == old(self).nesting, final(self).deepest_call@ == old(self).deepest_call@ { unimplemented!() }
    #[verifier::external_body] pub fn null_expr(&self, s: SpanH) -> (r: ExprOut) { unimplemented!() }
    #[verifier::external_body] pub fn empty_block(&self, s: SpanH) -> (r: BlockOut) { unimplemented!() }
    // the recursive descent proper: it may call the guarded entry points again, which leave `nesting` as they found it
    #[verifier::external_body] pub fn parse_expression_unguarded(&mut self, bp: u8) -> (r: ExprOut)
        requires old(self).nesting <= 256                       // MAX_PARSE_NESTING: the descent is never entered deeper than this
        ensures final(self).nesting == old(self).nesting { unimplemented!() }
    #[verifier::external_body] pub fn parse_block_body_unguarded(&mut self) -> (r: BlockOut)
        requires old(self).nesting <= 256
        ensures final(self).nesting == old(self).nesting { unimplemented!() }
}
'''

UNIT = VUnit(
    name="nesting_guard",
    props=["C08"],
    source="src/syntax/parser.rs",
    preamble=PRE,
    trusted=["the AST enums are copied from the source with leaf payloads opaque; slices are Vecs; the three push loops are cut out as calls that push every element with the given depth (R11)",
             "that 256 parser activations and a 512-deep tree fit the native stack with every frame size of the resolver, the analysis passes and a debug build is NOT decided (no notion of frame size): measured instead, DESIGN.md 0.5"],
    callers_closed=[("parse_expression_unguarded", "src/syntax/parser.rs", ["parse_expression"]),
                    ("parse_block_body_unguarded", "src/syntax/parser.rs", ["parse_block_body"]),
                    # the call machinery recurses into callee bodies: it is entered from eval_expr only, so every cycle of calls passes a probe
                    ("eval_function_call", "src/runtime.rs", ["eval_expr"])],
    items=[
        Const("MAX_PARSE_NESTING"), Const("MAX_TREE_DEPTH"),
        Const("KIBI", source="src/helpers.rs"), Const("MEBI", source="src/helpers.rs"), Const("STACK_BUDGET", source="src/runtime.rs", nth=2),   # the non-wasm definition
        Enum("BinaryOp"), Enum("UnaryOp"),
        Enum("Expr", derive="", generics="<'ast>", rewrites=[
            Rw("R12", r"ExprRef<'ast>", "&'ast Expr<'ast>"), Rw("R12", r"\bSpan\b", "SpanH"), Rw("R12", r"&'ast str", "StrH"),
            Rw("R12", r"StringParts<'ast>", "PartsH"), Rw("R12", r"ArgListRef<'ast>", "&'ast ArgList<'ast>"), Rw("R12", r"&'ast \[&'ast Expr<'ast>\]", "&'ast Elems<'ast>")]),
        Enum("Stmt", derive="", generics="<'ast>", rewrites=[
            Rw("R12", r"&'ast str", "StrH"), Rw("R12", r"\bSpan\b", "SpanH"), Rw("R12", r"ParamListRef<'ast>", "ParamsH"),
            Rw("R12", r"BlockRef<'ast>", "&'ast BlockT<'ast>"), Rw("R12", r"ExprRef<'ast>", "&'ast Expr<'ast>")]),
        Raw(MODEL),
        # both recursive entry points of the parser: the descent is entered only while fewer than MAX_PARSE_NESTING activations are open, the
        # counter is restored on the way out, and at the limit the parser gives up (one error, input skipped) instead of descending
        Fn("parse_expression", impl="impl Parser",
           sig="fn parse_expression(p: &mut Pg, min_bp: u8) -> (r: ExprOut)", expect_sig=r"fn parse_expression\(&mut self, min_bp: u8\) -> ExprRef<'ast>",
           requires=["old(p).nesting <= MAX_PARSE_NESTING"],
           ensures=["final(p).nesting == old(p).nesting", "old(p).nesting >= MAX_PARSE_NESTING ==> final(p).gave_up"],
           rewrites=[Rw("R2", r"self\.cur\.span", "p.cur_span()", min_matches=1), Rw("R8", r"self\.alloc\(Expr::Null\(span\)\)", "p.null_expr(span)", min_matches=1),
                     Rw("R2", r"self\.nesting", "p.nesting", min_matches=1), Rw("R9", r"self\.(give_up_on_nesting|parse_expression_unguarded)\(", r"p.\1(", min_matches=2)],
           vacuity="-", real_name="Parser::parse_expression (nesting guard)"),
        Fn("parse_block_body", impl="impl Parser",
           sig="fn parse_block_body(p: &mut Pg) -> (r: BlockOut)", expect_sig=r"fn parse_block_body\(&mut self\) -> BlockRef<'ast>",
           requires=["old(p).nesting <= MAX_PARSE_NESTING"],
           ensures=["final(p).nesting == old(p).nesting", "old(p).nesting >= MAX_PARSE_NESTING ==> final(p).gave_up"],
           rewrites=[Rw("R2", r"self\.cur\.span", "p.cur_span()", min_matches=1), Rw("R8", r"self\.alloc\(Block \{ stmts: &\[\], span \}\)", "p.empty_block(span)", min_matches=1),
                     Rw("R2", r"self\.nesting", "p.nesting", min_matches=1), Rw("R9", r"self\.(give_up_on_nesting|parse_block_body_unguarded)\(", r"p.\1(", min_matches=2)],
           vacuity="-", real_name="Parser::parse_block_body (nesting guard)"),
        # one step of the depth measurement: a node deeper than MAX_TREE_DEPTH is reported; otherwise EVERY node directly below it is pushed,
        # each one level deeper (so no subtree escapes the measurement and depths are exact)
        Block("measure_step", within="find_too_deep", impl="impl Parser",
              anchor=r"while let Some\(\(node, depth\)\) = stack\.pop\(\) ",
              sig="fn measure_step<'ast>(node: Node<'ast>, depth: u32, stack: &mut Stack<'ast>) -> (res: Option<SpanH>)",
              epilogue="    None",
              ensures=["res is Some <==> depth > MAX_TREE_DEPTH",
                       "res is None ==> final(stack).pushed@ =~= old(stack).pushed@ + children(node).map_values(|c: Node<'ast>| (c, (depth + 1) as u32))",
                       "res is Some ==> final(stack).pushed@ == old(stack).pushed@"],
              rewrites=[Rw("R11", r"for &stmt in block\.stmts \{\s*stack\.push\(\(Node::Stmt\(stmt\), below\)\);\s*\}", "stack.push_stmts(block, below);", min_matches=1),
                        Rw("R11", r"for &arg in args\.args \{\s*stack\.push\(\(Node::Expr\(arg\), below\)\);\s*\}", "stack.push_exprs(&args.args, below);", min_matches=1),
                        Rw("R11", r"for &element in \*elements \{\s*stack\.push\(\(Node::Expr\(element\), below\)\);\s*\}", "stack.push_exprs(&elements.v, below);", min_matches=1)],
              real_name="Parser::find_too_deep (one step of the explicit-stack walk)"),
        # the probe: StackOverflow exactly when the stack has grown more than the budget below the base recorded at run entry (the stack grows
        # downwards; a probe above the base wraps to a huge distance and is reported too)
        Fn("check_stack", source="src/runtime.rs", impl="impl Runtime",
           sig="fn check_stack(me: &Rs, span: SpanH) -> (res: Result<(), RtErr>)", expect_sig=r"fn check_stack\(&self, span: Span\) -> Result<\(\), RuntimeError>",
           ensures=["me.stack_base >= me.sp@ ==> (res is Err <==> me.stack_base - me.sp@ > budget())", "me.stack_base < me.sp@ && me.sp@ - me.stack_base < 0x1_0000_0000_0000_0000 - budget() ==> res is Err"],
           rewrites=[Rw("R13", r"let probe = 0u8;", "", min_matches=1), Rw("R5", r"&raw const probe as usize", "me.probe_address()", min_matches=1),
                     Rw("R5", r"self\.stack_base\.wrapping_sub\(current\)", "wrapping_sub(me.stack_base, current)", min_matches=1),
                     Rw("R6", r"Err\(RuntimeError::new\(RuntimeErrorKind::StackOverflow, span\)\)", "Err(me.stack_overflow(span))", min_matches=1)],
           vacuity="-", real_name="Runtime::check_stack"),
        # every activation of eval_expr probes the stack before it does anything else (so recursion through calls, operators, arguments and
        # elements is cut off by the budget, not by the end of the native stack)
        Fn("eval_expr", source="src/runtime.rs", impl="impl Runtime",
           sig="fn eval_expr(me: &mut Rs, expr: &ExprIn) -> (res: Result<ValOut, RtErr>)", expect_sig=r"fn eval_expr\(&mut self, expr: ExprRef<'a>\) -> Result<Value<'a>, RuntimeError>",
           requires=["!old(me).probed@"],
           rewrites=[Rw("R9", r"self\.check_stack\(expr\.span\(\)\)\?;", "check_stack_probe(me, expr.span())?;", min_matches=1),
                     Rw("R11", r"match expr \{.*\n        \}", "me.eval_dispatch(expr)", min_matches=1)],
           vacuity="-", real_name="Runtime::eval_expr (the probe comes first)"),
        # `return e`: e is evaluated through eval_expr like every other expression (a shortcut straight into the call machinery would let a
        # cycle of `return f()` calls recurse without ever probing the stack)
        Block("return_stmt", source="src/runtime.rs", within="exec_stmt", impl="impl Runtime", arm=True,
              anchor=r"Stmt::Return \{ expr, \.\. \} =>",
              sig="fn return_stmt<'x>(me: &mut Xs, expr: &Option<&'x Expr<'x>>) -> (res: Result<FlowOut, RtErr>)",
              rewrites=[Rw("R9", r"self\.(eval_expr|eval_function_call)\(", r"me.\1(", min_matches=1),
                        Rw("R8", r"Value::Null", "null_out()", min_matches=1), Rw("R8", r"ExecFlow::Return\(", "FlowOut::Return(", min_matches=1)],
              real_name="Runtime::exec_stmt (Stmt::Return arm: evaluation goes through the probing entry point)"),
    ],
)
