import sys, pathlib
sys.path.insert(0, str(pathlib.Path(__file__).resolve().parent.parent))
from common import MEMCHR
from vlib.vextract import VUnit, Fn, Const, Raw, Rw

PRE = MEMCHR + r'''
// ---------------------------------------------------------------------------------------------------------------------
// Model of `R: BufRead` (std's documented contract): the reader holds the not-yet-consumed input `rest()`.
//   fill_buf() returns a NON-EMPTY PREFIX of rest() of ARBITRARY length (every way the OS may split the input across reads),
//              empty only at end of input; or an error (possibly Interrupted).  It consumes nothing.
//   consume(n) drops the first n bytes of rest()  (n must not exceed what fill_buf returned).
// ---------------------------------------------------------------------------------------------------------------------
pub struct IoError { pub interrupted: bool }
impl IoError {
    pub fn kind(&self) -> (r: bool) ensures r == self.interrupted { self.interrupted }
}

#[verifier::external_body]
pub struct Reader { _p: u8 }
impl Reader {
    pub uninterp spec fn rest(&self) -> Seq<u8>;

    #[verifier::external_body]
    pub fn fill_buf(&mut self) -> (r: Result<Vec<u8>, IoError>)
        ensures
            final(self).rest() == old(self).rest(),
            r is Ok ==> r->Ok_0@.is_prefix_of(old(self).rest()) && (r->Ok_0@.len() == 0 <==> old(self).rest().len() == 0),
    { unimplemented!() }

    #[verifier::external_body]
    pub fn consume(&mut self, n: usize)
        requires n <= old(self).rest().len(),
        ensures final(self).rest() == old(self).rest().skip(n as int),
    { unimplemented!() }
}

// Vec<u8, &Arena> -> Vec<u8> (R8); `&chunk[..index]`
#[verifier::external_body]
fn prefix(a: &Vec<u8>, j: usize) -> (r: &[u8])
    requires j <= a@.len(),
    ensures r@ == a@.subrange(0, j as int),
{ &a[..j] }

#[verifier::external_body]
fn extend_from_slice(v: &mut Vec<u8>, s: &[u8])
    ensures final(v)@ == old(v)@ + s@,
{ v.extend_from_slice(s) }

// ArenaString::from_utf8_lossy_owned is the identity on valid UTF-8 (contract assumed here; the bytes are what matters)
pub struct Line { pub bytes: Vec<u8> }
fn from_utf8_lossy_owned(v: Vec<u8>) -> (r: Line) ensures r.bytes@ == v@ { Line { bytes: v } }

pub open spec fn has_nl(s: Seq<u8>) -> bool { exists|i: int| 0 <= i < s.len() && s[i] == 10 }
pub open spec fn first_nl(s: Seq<u8>) -> int { choose|i: int| 0 <= i < s.len() && s[i] == 10 && forall|j: int| 0 <= j < i ==> s[j] != 10 }

// The property statement for one call on remaining input `s`: the line, and what is left for the next call
#[verifier::opaque]
pub open spec fn line_of(s: Seq<u8>) -> Seq<u8> { if has_nl(s) { s.subrange(0, first_nl(s)) } else { s } }
#[verifier::opaque]
pub open spec fn after_line(s: Seq<u8>) -> Seq<u8> { if has_nl(s) { s.skip(first_nl(s) + 1) } else { Seq::<u8>::empty() } }

proof fn lemma_has_first(s: Seq<u8>, i: int)
    requires 0 <= i < s.len(), s[i] == 10,
    ensures exists|m: int| 0 <= m < s.len() && s[m] == 10 && forall|j: int| 0 <= j < m ==> s[j] != 10,
    decreases i,
{
    if exists|k: int| 0 <= k < i && s[k] == 10 {
        let k = choose|k: int| 0 <= k < i && s[k] == 10;
        lemma_has_first(s, k);
    } else {
        assert(0 <= i < s.len() && s[i] == 10 && forall|j: int| 0 <= j < i ==> s[j] != 10);
    }
}

proof fn lemma_first_nl_props(s: Seq<u8>)
    requires has_nl(s),
    ensures 0 <= first_nl(s) < s.len(), s[first_nl(s)] == 10, forall|j: int| 0 <= j < first_nl(s) ==> s[j] != 10,
{
    let w = choose|i: int| 0 <= i < s.len() && s[i] == 10;
    lemma_has_first(s, w);
}

proof fn lemma_first_nl(s: Seq<u8>, i: int)
    requires 0 <= i < s.len(), s[i] == 10, forall|j: int| 0 <= j < i ==> s[j] != 10,
    ensures has_nl(s), first_nl(s) == i,
{
    lemma_first_nl_props(s);
    let f = first_nl(s);
    if f < i { assert(s[f] != 10); }
    if i < f { assert(s[i] != 10); }
}

// the chunk contains the first newline of s at `index`
proof fn lemma_found(s: Seq<u8>, p: Seq<u8>, index: int)
    requires p.is_prefix_of(s), 0 <= index < p.len(), p[index] == 10, forall|j: int| 0 <= j < index ==> p[j] != 10,
    ensures line_of(s) == p.subrange(0, index), after_line(s) == s.skip(index + 1), index + 1 <= s.len(),
{
    reveal(line_of); reveal(after_line);
    assert forall|j: int| 0 <= j < index implies s[j] != 10 by { assert(s[j] == p[j]); }
    assert(s[index] == p[index]);
    lemma_first_nl(s, index);
    assert(p.subrange(0, index) =~= s.subrange(0, index));
}

proof fn lemma_eof(s: Seq<u8>)
    requires s.len() == 0,
    ensures line_of(s) == Seq::<u8>::empty(), after_line(s) == Seq::<u8>::empty(),
{
    reveal(line_of); reveal(after_line);
    assert(!has_nl(s));
    assert(s =~= Seq::<u8>::empty());
}

// no newline in a prefix p of s: the line of s is p followed by the line of the rest
proof fn lemma_skip_chunk(s: Seq<u8>, p: Seq<u8>)
    requires p.is_prefix_of(s), forall|j: int| 0 <= j < p.len() ==> p[j] != 10,
    ensures line_of(s) == p + line_of(s.skip(p.len() as int)), after_line(s) == after_line(s.skip(p.len() as int)),
{
    reveal(line_of); reveal(after_line);
    let t = s.skip(p.len() as int);
    assert forall|j: int| 0 <= j < p.len() implies s[j] != 10 by { assert(s[j] == p[j]); }
    if has_nl(s) {
        lemma_first_nl_props(s);
        let f = first_nl(s);
        if f < p.len() { assert(s[f] == p[f]); }
        assert(f >= p.len());
        assert(t[f - p.len()] == s[f]);
        assert forall|j: int| 0 <= j < f - p.len() implies t[j] != 10 by { assert(t[j] == s[j + p.len()]); }
        lemma_first_nl(t, f - p.len());
        assert(s.subrange(0, f) =~= p + t.subrange(0, f - p.len()));
        assert(s.skip(f + 1) =~= t.skip(f - p.len() + 1));
    } else {
        assert(!has_nl(t)) by {
            if has_nl(t) { lemma_first_nl_props(t); let g = first_nl(t); assert(s[g + p.len()] == t[g]); }
        }
        assert(s =~= p + t);
    }
}
'''

UNIT = VUnit(
    name="read_line",
    props=["C17"],
    source="src/sys/unix.rs",
    preamble=PRE,
    trusted=["std::io::BufRead contract: fill_buf returns a non-empty prefix of the unconsumed input (empty only at EOF) or an error; consume(n) drops n bytes",
             "std::io::stdin()'s buffer persists between calls (documented: Stdin is a handle to a shared global buffer)",
             "memchr_rs::memchr behaves as documented", "ArenaString::from_utf8_lossy_owned is the identity on valid UTF-8",
             "termination is NOT proved: a reader may answer Interrupted forever (partial correctness)"],
    lemma_obligations=["lemma_has_first", "lemma_first_nl_props", "lemma_first_nl", "lemma_found", "lemma_eof", "lemma_skip_chunk"],
    items=[
        Fn("read_line_from",
           expect_sig=r"fn read_line_from<'a, R: BufRead>\( input: &mut R, arena: &'a Arena, \) -> Result<ArenaString<'a>, io::Error>",
           sig="fn read_line_from(input: &mut Reader) -> (r: Result<Line, IoError>)",
           attrs="#[verifier::exec_allows_no_decreases_clause]\n",
           ensures=[
               # successive calls deliver successive lines, whatever the chunking: this call returns exactly the first line of the
               # remaining input and leaves exactly what follows its newline
               "r is Ok ==> r->Ok_0.bytes@ == line_of(old(input).rest())",
               "r is Ok ==> final(input).rest() == after_line(old(input).rest())",
           ],
           loops={1: dict(invariant_except_break=[
               "line@ + line_of(input.rest()) == line_of(old(input).rest())",
               "after_line(input.rest()) == after_line(old(input).rest())",
           ], ensures=["line@ == line_of(old(input).rest())", "input.rest() == after_line(old(input).rest())"])},
           rewrites=[
               Rw("R8", r"Vec::with_capacity_in\(KIBI, arena\)", "Vec::<u8>::new()"),
               Rw("R2", r"Err\(err\) if err\.kind\(\) == io::ErrorKind::Interrupted => continue,", "Err(err) if err.kind() => continue,"),
               Rw("R9", r"memchr\(b'\\n', chunk, 0\)", "memchr(10u8, chunk.as_slice(), 0)"),
               Rw("R5", r"line\.extend_from_slice\(&chunk\[\.\.index\]\);", "extend_from_slice(&mut line, prefix(&chunk, index));"),
               Rw("R5", r"line\.extend_from_slice\(chunk\);", "extend_from_slice(&mut line, chunk.as_slice());"),
               Rw("R8", r"ArenaString::from_utf8_lossy_owned\(line\)", "from_utf8_lossy_owned(line)"),
               Rw("R8", r"ArenaString::new_in\(arena\)", "Line { bytes: Vec::new() }", min_matches=0),
           ],
           inserts=[
               (r"if index < chunk\.len\(\)", 1, "proof { if index < chunk@.len() { lemma_found(input.rest(), chunk@, index as int); } else { lemma_skip_chunk(input.rest(), chunk@); } }"),
               (r"if chunk\.is_empty\(\)", 1, "proof { if chunk@.len() == 0 { lemma_eof(input.rest()); } }"),
           ],
           vacuity="-",
           real_name="sys::unix::read_line_from"),
    ],
)
