import sys, pathlib
sys.path.insert(0, str(pathlib.Path(__file__).resolve().parent.parent))
from vlib.vextract import VUnit, Fn, Const, Raw, Rw

PRE = r'''
global size_of usize == 8;

// Abstract model of one size-class pool.  The slot block is reduced to its geometry and the virgin watermark `bump`; the free
// list to the SEQUENCE of indices it holds (its pointer code -- push/pop over a raw u32 array -- is verified by Kani:
// freelist__contract); a slot pointer to its index (slot_ptr/index_of are inverse: slotblock__contract).
pub struct SlotBlock { pub slot_size: u32, pub slot_count: u32, pub bump: u32 }
pub struct FreeList { pub items: Vec<u32>, pub capacity: u32 }
pub struct Pool { pub block: SlotBlock, pub free: FreeList, pub live_count: u32 }
pub struct SlotPtr { pub index: u32 }
pub struct Slot { pub index: u32, pub len: usize }

pub open spec fn no_dup(s: Seq<u32>) -> bool { forall|i: int, j: int| 0 <= i < j < s.len() ==> s[i] != s[j] }

// type invariant of a pool
pub open spec fn pool_wf(p: Pool) -> bool {
    &&& p.block.bump <= p.block.slot_count
    &&& p.free.capacity == p.block.slot_count
    &&& p.free.items@.len() <= p.block.bump
    &&& no_dup(p.free.items@)
    &&& forall|i: int| 0 <= i < p.free.items@.len() ==> p.free.items@[i] < p.block.bump
    &&& p.live_count == p.block.bump - p.free.items@.len()                 // conservation: live + free + virgin == count
}
// ghost view: slot i is live (handed out and not returned)
pub open spec fn live(p: Pool, i: u32) -> bool { i < p.block.bump && !p.free.items@.contains(i) }

impl SlotBlock {
    // `index_of(ptr).expect(..)` on a pointer that IS a slot start of this block (slotblock__contract: index_of(slot_ptr(i)) == Some(i))
    fn index_of(&self, p: SlotPtr) -> (r: u32)
        requires p.index < self.slot_count,
        ensures r == p.index,
    { p.index }
    fn slot_ptr(&self, index: u32) -> (r: SlotPtr)
        requires index < self.slot_count,
        ensures r.index == index,
    { SlotPtr { index } }
}
impl FreeList {
    // contracts of FreeList::pop / push / len (their raw-pointer bodies: Kani harness freelist__contract)
    fn pop(&mut self) -> (r: Option<u32>)
        ensures
            old(self).items@.len() == 0 ==> r is None && final(self).items@ == old(self).items@,
            old(self).items@.len() > 0 ==> r == Some(old(self).items@.last()) && final(self).items@ == old(self).items@.drop_last(),
            final(self).capacity == old(self).capacity,
    { self.items.pop() }
    fn push(&mut self, index: u32)
        requires old(self).items@.len() < old(self).capacity,          // the real push debug_asserts it and would write out of bounds otherwise
        ensures final(self).items@ == old(self).items@.push(index), final(self).capacity == old(self).capacity,
    { self.items.push(index) }
    fn len(&self) -> (r: u32)
        requires self.items@.len() <= u32::MAX,
        ensures r == self.items@.len(),
    { self.items.len() as u32 }
}
fn mk_slot(p: SlotPtr, len: usize) -> (s: Slot) ensures s.index == p.index, s.len == len { Slot { index: p.index, len } }

proof fn lemma_drop_last_no_dup(s: Seq<u32>)
    requires no_dup(s), s.len() > 0,
    ensures no_dup(s.drop_last()), !s.drop_last().contains(s.last()),
{
    let t = s.drop_last();
    assert forall|i: int, j: int| 0 <= i < j < t.len() implies t[i] != t[j] by { assert(t[i] == s[i] && t[j] == s[j]); }
    if t.contains(s.last()) {
        let k = choose|k: int| 0 <= k < t.len() && t[k] == s.last();
        assert(s[k] == s[s.len() - 1]);
    }
}
proof fn lemma_drop_last_contains(s: Seq<u32>, x: u32)
    requires s.len() > 0, x != s.last(),
    ensures s.drop_last().contains(x) == s.contains(x),
{
    let t = s.drop_last();
    if s.contains(x) {
        let k = choose|k: int| 0 <= k < s.len() && s[k] == x;
        assert(k < s.len() - 1);
        assert(t[k] == x);
    }
    if t.contains(x) {
        let k = choose|k: int| 0 <= k < t.len() && t[k] == x;
        assert(s[k] == x);
    }
}
proof fn lemma_push_contains(s: Seq<u32>, y: u32, x: u32)
    requires x != y,
    ensures s.push(y).contains(x) == s.contains(x),
{
    let t = s.push(y);
    if s.contains(x) {
        let k = choose|k: int| 0 <= k < s.len() && s[k] == x;
        assert(t[k] == x);
    }
    if t.contains(x) {
        let k = choose|k: int| 0 <= k < t.len() && t[k] == x;
        assert(k < s.len());
        assert(s[k] == x);
    }
}
// pigeonhole: a duplicate-free sequence of values below n has at most n entries
proof fn lemma_bounded_no_dup_len(s: Seq<u32>, n: u32)
    requires no_dup(s), forall|i: int| 0 <= i < s.len() ==> s[i] < n,
    ensures s.len() <= n,
    decreases n,
{
    if n == 0 {
        if s.len() > 0 { assert(s[0] < 0); }
    } else {
        let top = (n - 1) as u32;
        if s.contains(top) {
            let k = choose|k: int| 0 <= k < s.len() && s[k] == top;
            let t = s.remove(k);
            assert forall|i: int, j: int| 0 <= i < j < t.len() implies t[i] != t[j] by {
                let ii = if i < k { i } else { i + 1 };
                let jj = if j < k { j } else { j + 1 };
                assert(t[i] == s[ii] && t[j] == s[jj]);
            }
            assert forall|i: int| 0 <= i < t.len() implies t[i] < top by {
                let ii = if i < k { i } else { i + 1 };
                assert(t[i] == s[ii]);
                assert(s[ii] != s[k]);
            }
            lemma_bounded_no_dup_len(t, top);
        } else {
            assert forall|i: int| 0 <= i < s.len() implies s[i] < top by {
                assert(s.contains(s[i]));
            }
            lemma_bounded_no_dup_len(s, top);
        }
    }
}
// so a free list that does not contain a live slot has room for it
proof fn lemma_free_list_has_room(s: Seq<u32>, n: u32, x: u32)
    requires no_dup(s), forall|i: int| 0 <= i < s.len() ==> s[i] < n, x < n, !s.contains(x),
    ensures s.len() < n,
{
    lemma_push_no_dup(s, x);
    let t = s.push(x);
    assert forall|i: int| 0 <= i < t.len() implies t[i] < n by { if i < s.len() { assert(t[i] == s[i]); } }
    lemma_bounded_no_dup_len(t, n);
}
proof fn lemma_push_no_dup(s: Seq<u32>, x: u32)
    requires no_dup(s), !s.contains(x),
    ensures no_dup(s.push(x)),
{
    let t = s.push(x);
    assert forall|i: int, j: int| 0 <= i < j < t.len() implies t[i] != t[j] by {
        if j == s.len() { assert(t[i] == s[i]); assert(s.contains(s[i])); } else { assert(t[i] == s[i] && t[j] == s[j]); }
    }
}
'''

CELL = [
    Rw("R2", r"self\.block\.bump\.get\(\)", "self.block.bump", min_matches=0),
    Rw("R2", r"self\.block\.bump\.set\(([^;]+)\);", r"self.block.bump = \1;", min_matches=0),
    Rw("R2", r"self\.live_count\.get\(\)", "self.live_count", min_matches=0),
    Rw("R2", r"self\.live_count\.set\(([^;]+)\);", r"self.live_count = \1;", min_matches=0),
    Rw("R7", r"if cfg!\(debug_assertions\) \{.*?\n            \}\n", "", min_matches=0),
    Rw("R7", r"if cfg!\(debug_assertions\) \{.*?\n        \}\n", "", min_matches=0),
    Rw("R1", r"self\.assert_conservation\(\);", "", min_matches=0),
    Rw("R1", r"debug_assert!\(.*?\);\n", "", min_matches=0),
]

UNIT = VUnit(
    name="pool",
    props=["C12"],
    source="src/arena/pool.rs",
    preamble=PRE + "\nimpl Pool {\n",
    epilogue="\n} // impl Pool\n",
    global_rewrites=CELL,
    trusted=["Cell<u32> fields as plain fields (R2)", "debug poison assertion / fill and assert_conservation (debug_assert of the very invariant proved here) removed (R7/R1): inside the code Kani executes",
             "FreeList and SlotBlock pointer code replaced by their contracts (proved by Kani: freelist__contract, slotblock__contract)",
             "a slot pointer is abstracted to its slot index (slot_ptr / index_of inverse: slotblock__contract)"],
    lemma_obligations=["lemma_drop_last_no_dup", "lemma_drop_last_contains", "lemma_push_contains", "lemma_bounded_no_dup_len", "lemma_free_list_has_room", "lemma_push_no_dup"],
    items=[
        Fn("alloc", impl="impl Pool",
           expect_sig=r"fn alloc\(&self\) -> Option<NonNull<\[u8\]>>",
           sig="fn alloc(&mut self) -> (r: Option<Slot>)",
           requires=["pool_wf(*old(self))"],
           ensures=["pool_wf(*final(self))",
                    # never hands out a live slot; exactly that slot becomes live; every other slot keeps its state (whole-view frame)
                    "r is Some ==> !live(*old(self), r->Some_0.index) && live(*final(self), r->Some_0.index) && r->Some_0.len == old(self).block.slot_size && r->Some_0.index < old(self).block.slot_count",
                    "r is Some ==> forall|i: u32| i != r->Some_0.index ==> live(*final(self), i) == live(*old(self), i)",
                    "r is Some ==> final(self).live_count == old(self).live_count + 1",
                    # None exactly when every slot is live; state unchanged
                    "r is None <==> (old(self).free.items@.len() == 0 && old(self).block.bump == old(self).block.slot_count)",
                    "r is None ==> final(self).free.items@ == old(self).free.items@ && final(self).block.bump == old(self).block.bump && final(self).live_count == old(self).live_count"],
           rewrites=[Rw("R5", r"Some\(NonNull::slice_from_raw_parts\(ptr, self\.block\.slot_size as usize\)\)", "Some(mk_slot(ptr, self.block.slot_size as usize))")],
           inserts=[(r"if let Some\(index\) = self\.free\.pop\(\)", 1, "proof { if self.free.items@.len() > 0 { lemma_drop_last_no_dup(self.free.items@); assert forall|i: u32| i != old(self).free.items@.last() implies old(self).free.items@.drop_last().contains(i) == old(self).free.items@.contains(i) by { lemma_drop_last_contains(old(self).free.items@, i); } } }")],
           vacuity="p: Pool", vacuity_subst=[("*old(self)", "p"), ("old(self)", "p")], real_name="Pool::alloc"),
        Fn("dealloc", impl="impl Pool",
           expect_sig=r"unsafe fn dealloc\(&self, ptr: NonNull<u8>\)",
           sig="fn dealloc(&mut self, ptr: SlotPtr)",
           # caller's obligation (the `unsafe` contract): the pointer is a LIVE slot of this pool
           requires=["pool_wf(*old(self))", "live(*old(self), ptr.index)"],
           ensures=["pool_wf(*final(self))",
                    "!live(*final(self), ptr.index)",
                    "forall|i: u32| i != ptr.index ==> live(*final(self), i) == live(*old(self), i)",
                    "final(self).live_count == old(self).live_count - 1",
                    "final(self).free.items@ == old(self).free.items@.push(ptr.index)",     # LIFO: the next alloc recycles this slot
                    "final(self).block.bump == old(self).block.bump"],
           rewrites=[Rw("R5", r"self\s*\.block\s*\.index_of\(ptr\.as_ptr\(\)\)\s*\.expect\(\"[^\"]*\"\)", "self.block.index_of(ptr)")],
           inserts=[(r"self\.free\.push\(index\);", 1, "proof { lemma_free_list_has_room(self.free.items@, self.block.bump, index); lemma_push_no_dup(self.free.items@, index); assert forall|i: u32| i != index implies old(self).free.items@.push(index).contains(i) == old(self).free.items@.contains(i) by { lemma_push_contains(old(self).free.items@, index, i); } assert(old(self).free.items@.push(index).contains(index)) by { assert(old(self).free.items@.push(index)[old(self).free.items@.len() as int] == index); } }")],
           vacuity="p: Pool, ptr: SlotPtr", vacuity_subst=[("*old(self)", "p"), ("old(self)", "p")], real_name="Pool::dealloc"),
    ],
)
