import sys, pathlib
sys.path.insert(0, str(pathlib.Path(__file__).resolve().parent.parent))
from vlib.vextract import VUnit, Fn, Const, Raw, Rw, Enum, Block, Struct

PRE = r'''
#[derive(Clone, Copy)] pub struct FunctionId(pub u32);
// #[derive(PartialEq)] on a one-field tuple struct: structural equality
impl vstd::std_specs::cmp::PartialEqSpecImpl for FunctionId {
    open spec fn obeys_eq_spec() -> bool { true }
    open spec fn eq_spec(&self, o: &FunctionId) -> bool { *self == *o }
}
impl PartialEq for FunctionId { fn eq(&self, o: &FunctionId) -> (r: bool) { self.0 == o.0 } }
pub struct BudgetExceeded;
pub struct SummaryBudget { pub g: Ghost<int> }
// a `Vec<Id, &Arena>` used as a set (extend_unique / push_unique_bounded keep it duplicate-free)
pub struct IdSet { pub s: Ghost<Set<int>> }
'''

MODEL = r'''
pub open spec fn rank(c: ExprClass) -> int { match c { ExprClass::PureNoTrap => 0, ExprClass::PureMayTrap => 1, ExprClass::Impure => 2 } }
// the fields of FunctionSummary this step reads and writes
pub struct Summary {
    pub available: bool,
    pub transitive_callees: IdSet,
    pub transitive_capture_reads: IdSet,
    pub transitive_capture_writes: IdSet,
    pub body_class: ExprClass,
    pub transitive_class: ExprClass,
}
// extend_unique(dst, src, budget): dst becomes dst U src (or the budget runs out); reports whether dst grew
#[verifier::external_body]
fn extend_unique(dst: &mut IdSet, src: &IdSet, budget: &mut SummaryBudget) -> (r: Result<bool, BudgetExceeded>)
    ensures r is Ok ==> final(dst).s@ == old(dst).s@.union(src.s@) && r->Ok_0 == (final(dst).s@ != old(dst).s@)
{ unimplemented!() }
'''

UNIT = VUnit(
    name="summary_step",
    props=["C03"],
    source="src/analysis/summary.rs",
    preamble=PRE,
    trusted=["the id vectors of a FunctionSummary are modelled as sets and extend_unique by its set contract (dst := dst U src)",
             "split_summary_pair (two disjoint elements of one slice) is replaced by passing caller and callee summaries as two parameters"],
    items=[
        Enum("ExprClass", source="src/analysis/effects.rs", derive="#[derive(Clone, Copy)]", eq=True),
        Raw(MODEL),
        Raw("impl ExprClass {"),
        Fn("join", source="src/analysis/effects.rs", impl="impl ExprClass",
           sig="pub fn join(self, other: ExprClass) -> (r: ExprClass)", expect_sig=r"pub const fn join\(self, other: Self\) -> Self",
           ensures=["rank(r) == (if rank(self) >= rank(other) { rank(self) } else { rank(other) })"],
           rewrites=[Rw("R2", r"Self::", "ExprClass::")],
           vacuity="-", real_name="ExprClass::join"),
        Raw("}"),
        # one callee absorbed into its caller's summary: everything the callee may transitively call, read or write through captures
        # becomes part of the caller's sets, and the caller's running effect class rises to at least the callee's TRANSITIVE class (so an
        # impure callee of a callee makes the caller impure); an unavailable callee aborts the component
        Block("absorb_callee", within="summarize_component", impl=None,
              anchor=r"for &callee in &facts\.function_direct\(function\)\.direct_callees ",
              sig="fn absorb_callee(function: FunctionId, callee: FunctionId, caller_summary: &mut Summary, callee_summary: &Summary, budget: &mut SummaryBudget, tc0: ExprClass, changed0: bool) -> (res: Result<(ExprClass, bool), BudgetExceeded>)",
              prologue="    let mut transitive_class = tc0;\n    let mut changed = changed0;", epilogue="    Ok((transitive_class, changed))",
              ensures=["callee == function ==> res is Ok && res->Ok_0.0 == tc0 && res->Ok_0.1 == changed0 && *final(caller_summary) == *old(caller_summary)",
                       "callee != function && !callee_summary.available ==> res is Err",
                       "callee != function && res is Ok ==> rank(res->Ok_0.0) >= rank(tc0) && rank(res->Ok_0.0) >= rank(callee_summary.transitive_class)",
                       "callee != function && res is Ok ==> callee_summary.transitive_callees.s@.subset_of(final(caller_summary).transitive_callees.s@)"
                       " && callee_summary.transitive_capture_reads.s@.subset_of(final(caller_summary).transitive_capture_reads.s@)"
                       " && callee_summary.transitive_capture_writes.s@.subset_of(final(caller_summary).transitive_capture_writes.s@)",
                       # nothing is ever dropped from the caller's sets, and a growth is reported
                       "res is Ok ==> old(caller_summary).transitive_callees.s@.subset_of(final(caller_summary).transitive_callees.s@)"
                       " && old(caller_summary).transitive_capture_reads.s@.subset_of(final(caller_summary).transitive_capture_reads.s@)"
                       " && old(caller_summary).transitive_capture_writes.s@.subset_of(final(caller_summary).transitive_capture_writes.s@)",
                       "res is Ok && (final(caller_summary).transitive_callees.s@ != old(caller_summary).transitive_callees.s@ || final(caller_summary).transitive_capture_reads.s@ != old(caller_summary).transitive_capture_reads.s@ || final(caller_summary).transitive_capture_writes.s@ != old(caller_summary).transitive_capture_writes.s@) ==> res->Ok_0.1"],
              rewrites=[Rw("R11b", r"continue;", "return Ok((transitive_class, changed));", min_matches=1),
                        Rw("R11b", r"let callee_idx = callee\.0 as usize;\s*let \(caller_summary, callee_summary\) =\s*split_summary_pair\(summaries, function_idx, callee_idx\);", "", min_matches=1)],
              real_name="summary::summarize_component (body of the callee loop)"),
    ],
)
