import sys, pathlib
sys.path.insert(0, str(pathlib.Path(__file__).resolve().parent.parent))
from vlib.vextract import VUnit, Fn, Const, Raw, Rw, Enum, Block, Struct

PRE = r'''
// strings are opaque ids here: what is decided is WHICH strings reach std::process::Command, in what order and how many
#[derive(Clone, Copy)] pub struct S { pub id: Ghost<int> }
pub struct EnvPair { pub key: S, pub value: S }
pub struct IoError { pub g: Ghost<int> }
pub struct Status { pub code: Ghost<Option<i32>> }
impl Status {
    #[verifier::external_body]
    pub fn code(&self) -> (r: Option<i32>) ensures r == self.code@ { unimplemented!() }
}
pub struct Text { pub id: Ghost<int> }
'''

MODEL = r'''
pub enum ProcessError { SpawnFailed(IoError), Timeout, OutputLimitExceeded(ProcessStream), InvalidUtf8(ProcessStream) }
pub struct ProcessSpec { pub program: S, pub args: Vec<S>, pub cwd: Option<S>, pub env: Vec<EnvPair>, pub stdin: StdinM, pub stdout: OutputPolicy, pub stderr: OutputPolicy, pub timeout_ms: u32 }
pub type StdinM = StdinPolicy;
pub struct ProcessCaps { pub max_capture_bytes_per_stream: u32, pub wait_poll_ms: u32 }
pub struct ProcessResult { pub success: bool, pub exit_code: Option<i32>, pub stdout: Option<Text>, pub stderr: Option<Text> }

// Ghost record of a std::process::Command: what has been handed to it so far
pub struct Command {
    pub program: Ghost<int>, pub args: Ghost<Seq<int>>, pub cwd: Ghost<Option<int>>, pub env: Ghost<Seq<(int, int)>>,
    pub stdio_done: Ghost<bool>,
    pub stdin: Ghost<Option<Stdio>>, pub stdout: Ghost<Option<Stdio>>, pub stderr: Ghost<Option<Stdio>>,
}
#[derive(PartialEq, Eq, Clone, Copy)]
pub enum Stdio { Inherit, Null, Piped }
impl Stdio {
    pub fn inherit() -> (r: Stdio) ensures r == Stdio::Inherit { Stdio::Inherit }
    pub fn null() -> (r: Stdio) ensures r == Stdio::Null { Stdio::Null }
    pub fn piped() -> (r: Stdio) ensures r == Stdio::Piped { Stdio::Piped }
}
pub open spec fn stdio_of(p: OutputPolicy) -> Stdio { match p { OutputPolicy::Inherit => Stdio::Inherit, OutputPolicy::Null => Stdio::Null, OutputPolicy::Capture => Stdio::Piped } }
pub struct CommandIo { pub stdin: Ghost<Option<Stdio>>, pub stdout: Ghost<Option<Stdio>>, pub stderr: Ghost<Option<Stdio>> }
impl CommandIo {
    #[verifier::external_body] pub fn stdin(&mut self, s: Stdio) ensures final(self).stdin@ == Some(s), final(self).stdout@ == old(self).stdout@, final(self).stderr@ == old(self).stderr@ { unimplemented!() }
    #[verifier::external_body] pub fn stdout(&mut self, s: Stdio) ensures final(self).stdout@ == Some(s), final(self).stdin@ == old(self).stdin@, final(self).stderr@ == old(self).stderr@ { unimplemented!() }
    #[verifier::external_body] pub fn stderr(&mut self, s: Stdio) ensures final(self).stderr@ == Some(s), final(self).stdin@ == old(self).stdin@, final(self).stdout@ == old(self).stdout@ { unimplemented!() }
}
pub open spec fn ids(v: Seq<S>) -> Seq<int> { v.map_values(|s: S| s.id@) }
pub open spec fn env_ids(v: Seq<EnvPair>) -> Seq<(int, int)> { v.map_values(|p: EnvPair| (p.key.id@, p.value.id@)) }
impl Command {
    // the child is described by exactly the spec: program, every argument in order, the working directory if any, every pair in order
    pub open spec fn carries(&self, spec: &ProcessSpec) -> bool {
        self.program@ == spec.program.id@ && self.args@ =~= ids(spec.args@) && self.cwd@ == (match spec.cwd { Some(c) => Some(c.id@), None => None::<int> })
        && self.env@ =~= env_ids(spec.env@) && self.stdio_done@
    }
    #[verifier::external_body]
    pub fn new(program: S) -> (r: Command) ensures r.program@ == program.id@, r.args@.len() == 0, r.cwd@ is None, r.env@.len() == 0, !r.stdio_done@ { unimplemented!() }
    // command.args(iter): appends every item of the iterator, in order
    #[verifier::external_body]
    pub fn args_all(&mut self, a: &Vec<S>) ensures final(self).args@ == old(self).args@ + ids(a@), final(self).program@ == old(self).program@, final(self).cwd@ == old(self).cwd@, final(self).env@ == old(self).env@, final(self).stdio_done@ == old(self).stdio_done@ { unimplemented!() }
    #[verifier::external_body]
    pub fn current_dir(&mut self, c: S) ensures final(self).cwd@ == Some(c.id@), final(self).program@ == old(self).program@, final(self).args@ == old(self).args@, final(self).env@ == old(self).env@, final(self).stdio_done@ == old(self).stdio_done@ { unimplemented!() }
    // R11: `for pair in spec.env { command.env(pair.key.as_str(), pair.value.as_str()); }`
    #[verifier::external_body]
    pub fn env_all(&mut self, e: &Vec<EnvPair>) ensures final(self).env@ == old(self).env@ + env_ids(e@), final(self).program@ == old(self).program@, final(self).args@ == old(self).args@, final(self).cwd@ == old(self).cwd@, final(self).stdio_done@ == old(self).stdio_done@ { unimplemented!() }
    // command.spawn(): the precondition IS the property -- what is spawned carries exactly the validated spec
    #[verifier::external_body]
    pub fn spawn(&mut self, Ghost(spec): Ghost<&ProcessSpec>) -> (r: Result<Child, ProcessError>) requires old(self).carries(spec) ensures r is Err ==> r->Err_0 is SpawnFailed { unimplemented!() }
}
#[verifier::external_body]
fn configure_stdio(command: &mut Command, spec: &ProcessSpec)
    ensures final(command).stdio_done@, final(command).program@ == old(command).program@, final(command).args@ == old(command).args@, final(command).cwd@ == old(command).cwd@, final(command).env@ == old(command).env@
{ unimplemented!() }
pub struct Child { pub g: Ghost<int> }
pub struct Flag { pub g: Ghost<int> }
pub struct Writer { pub g: Ghost<int> }
pub struct Capture { pub stream: Ghost<ProcessStream>, pub joined: Ghost<bool> }
#[verifier::external_body] fn new_flag() -> (r: Flag) { unimplemented!() }
#[verifier::external_body] fn spawn_stdin_writer(child: &mut Child, stdin: &StdinM) -> (r: Option<Writer>) { unimplemented!() }
#[verifier::external_body] fn spawn_capture_reader(child: &mut Child, policy: OutputPolicy, cap: u32, stream: ProcessStream, overflow: &Flag) -> (r: Option<Capture>)
    ensures r is Some == (policy is Capture), r is Some ==> r->Some_0.stream@ == stream { unimplemented!() }
// contracts of the functions verified in unit capture, as far as this function uses them
#[verifier::external_body] fn wait_for_child(child: &mut Child, poll: u32, timeout: u32, overflow: &Flag) -> (r: Result<Status, ProcessError>) { unimplemented!() }
#[verifier::external_body] fn join_writer(w: Option<Writer>) -> (r: Result<(), IoError>) { unimplemented!() }
pub uninterp spec fn joined_text(c: Capture) -> int;
#[verifier::external_body] fn join_capture(c: Option<Capture>, stream: ProcessStream, overflow: &Flag) -> (r: Result<Option<Text>, ProcessError>)
    requires c is Some ==> c->Some_0.stream@ == stream       // each handle is joined as the stream it reads
    ensures c is None ==> r == Ok::<Option<Text>, ProcessError>(None), c is Some && r is Ok ==> r->Ok_0 is Some && r->Ok_0->Some_0.id@ == joined_text(c->Some_0)
{ unimplemented!() }
'''

UNIT = VUnit(
    name="host_process",
    props=["C15", "C16"],
    source="src/sys/process_common.rs",
    preamble=PRE,
    trusted=["std::process::Command is a ghost record of what it has been given (new/args/current_dir/env append exactly what they are passed); that it then execs that program with those arguments WITHOUT a shell is documented std behaviour (assumed)",
             "the env loop `for pair in spec.env { command.env(..) }` is cut out as one call appending every pair in order (R11); configure_stdio, the thread spawners and the functions of unit capture are used through contracts",
             "strings are opaque ids: byte-exactness of each string is the Kani half of C15"],
    items=[
        Enum("ProcessStream", source="src/process.rs", derive="#[derive(Clone, Copy)]", eq=True),
        Enum("OutputPolicy", source="src/process.rs", derive="#[derive(Clone, Copy)]", eq=True),
        Enum("StdinPolicy", source="src/process.rs", derive="", rewrites=[Rw("R12", r"ArenaString<'a>", "S")]),
        Raw(MODEL),
        # a captured stream is a pipe, a null one the null device, an inherited one the parent's; stdin is a pipe exactly when text is fed
        Fn("output_stdio", sig="fn output_stdio(policy: OutputPolicy) -> (r: Stdio)", expect_sig=r"fn output_stdio\(policy: OutputPolicy\) -> Stdio",
           ensures=["r == stdio_of(policy)"], vacuity="-", real_name="process_common::output_stdio"),
        Fn("configure_stdio", label="configure_stdio_body",
           sig="fn configure_stdio_body(command: &mut CommandIo, spec: &ProcessSpec)", expect_sig=r"fn configure_stdio\(command: &mut Command, spec: &ProcessSpec<'_>\)",
           ensures=["final(command).stdout@ == Some(stdio_of(spec.stdout)) && final(command).stderr@ == Some(stdio_of(spec.stderr))",
                    "final(command).stdin@ == Some(match spec.stdin { StdinPolicy::Inherit => Stdio::Inherit, StdinPolicy::Null => Stdio::Null, StdinPolicy::Text(_) => Stdio::Piped })"],
           vacuity="-", real_name="process_common::configure_stdio"),
        # the child is spawned from a Command that carries exactly the spec (same program, same arguments in the same order and number,
        # the configured directory, every environment pair in order); a failed wait still joins every helper thread before the error is
        # returned; an exit status, zero or not, is result data; each capture handle is joined as the stream it was opened for
        Fn("run_host_process",
           sig="fn run_host_process(spec: &ProcessSpec, caps: &ProcessCaps) -> (res: Result<ProcessResult, ProcessError>)",
           expect_sig=r"pub fn run_host_process<'arena>\(\s*spec: &ProcessSpec<'_>,\s*caps: &ProcessCaps,\s*arena: &'arena Arena,?\s*\) -> Result<ProcessResult<'arena>, ProcessError>",
           ensures=["res is Ok ==> res->Ok_0.success == (res->Ok_0.exit_code == Some(0i32))",
                    "res is Ok ==> (res->Ok_0.stdout is Some == (spec.stdout is Capture)) && (res->Ok_0.stderr is Some == (spec.stderr is Capture))"],
           rewrites=[Rw("R8", r"command\.args\(spec\.args\.iter\(\)\.map\(ArenaString::as_str\)\);", "command.args_all(&spec.args);", min_matches=1),
                     Rw("R11", r"for pair in spec\.env \{\s*command\.env\(pair\.key\.as_str\(\), pair\.value\.as_str\(\)\);\s*\}", "command.env_all(&spec.env);", min_matches=1),
                     Rw("R9", r"command\.spawn\(\)\.map_err\(ProcessError::SpawnFailed\)\?", "command.spawn(Ghost(spec))?", min_matches=1),
                     Rw("R8", r"Arc::new\(AtomicU8::new\(0\)\)", "new_flag()", min_matches=1),
                     Rw("R8", r"Arc::clone\(&overflow\)", "&overflow", min_matches=2),
                     Rw("R8", r"spawn_stdin_writer\(&mut child, spec\.stdin\)", "spawn_stdin_writer(&mut child, &spec.stdin)", min_matches=1),
                     Rw("R8", r"join_capture\((stdout|stderr), (ProcessStream::\w+), &overflow, arena\)", r"join_capture(\1, \2, &overflow)", min_matches=4)],
           vacuity="-", real_name="process_common::run_host_process"),
    ],
)
