import sys, pathlib
sys.path.insert(0, str(pathlib.Path(__file__).resolve().parent.parent))
from vlib.vextract import VUnit, Fn, Const, Raw, Rw, Enum, Block
from verus.units.eval_methods import PRE, ARGS, ARG_EVAL, ERR

REGION = r'''
// Where an arena string's bytes live.  `self.arena` is the persistent arena (lives as long as the run); `self.frame` is the frame
// arena, reset at every loop iteration and function return.  A process_command builder outlives the frame it was configured in, so
// every string stored in it must be allocated in the persistent arena, or the child would receive bytes that were reused (C15, C02).
#[derive(PartialEq, Eq, Clone, Copy)]
pub enum Region { Persist, Frame }
pub struct SBuf { pub region: Ghost<Region> }
pub struct Arenas { pub arena: Region, pub frame: Region }
impl Arenas {
    pub open spec fn wf(&self) -> bool { self.arena == Region::Persist && self.frame == Region::Frame }
}
// `ArenaString::from_str(A, ..)` / `GlobalBuiltin::to_string(A, ..)` (= arena_format!(A, ..)): the string lives in A
#[verifier::external_body]
fn sbuf_in(a: Region) -> (r: SBuf) ensures r.region@ == a { unimplemented!() }
// `cow.into_owned(A)` (ArenaCow): an owned string is returned as it is -- wherever it lives -- and only a borrowed one is copied into A
#[verifier::external_body]
fn into_owned_in(text: StrV, a: Region) -> (r: SBuf) { unimplemented!() }
// `command.push_arg(s)`, `set_cwd(s)`, `set_env(k, v)`, `set_stdin_text(s)`: s becomes part of the builder
#[verifier::external_body]
fn cmd_store(s: SBuf) requires s.region@ == Region::Persist { unimplemented!() }
'''

UNIT = VUnit(
    name="cmd_store",
    props=["C15", "C02"],
    source="src/runtime.rs",
    preamble=PRE,
    trusted=["region typing: `self.arena`/`self.frame` are the persistent/frame arena (Runtime field meaning); ArenaString::from_str and arena_format! allocate in the arena they are given",
             "argument evaluation is the shim Args::eval(k); ProcessCommand setters reduce to cmd_store(string) whose precondition is the residence requirement"],
    items=[
        Enum("StringBuiltin", source="src/builtins/string.rs"),
        Enum("ArrayBuiltin", source="src/builtins/array.rs"),
        Enum("NumberBuiltin", source="src/builtins/number.rs"),
        Enum("ProcessCommandBuiltin", source="src/builtins/process.rs"),
        Enum("ProcessResultBuiltin", source="src/builtins/process.rs"),
        Enum("MemberBuiltin", source="src/builtins/mod.rs"),
        Enum("HostValue", source="src/process.rs", derive="", rewrites=[Rw("R12", r"ProcessCommand<'a>", "CmdV"), Rw("R12", r"ProcessResult<'a>", "ResV")]),
        Enum("Value", derive="", rewrites=[
            Rw("R12", r"ArenaCow<'a>", "StrV"), Rw("R12", r"Vec<Value<'a>, &'a Arena>", "ArrV"), Rw("R12", r"HostHandle<'a>", "HostV"),
        ]),
        Raw(ARGS), Raw(REGION),
        Fn("eval_required_string", impl="impl Runtime",
           sig="fn eval_required_string(me: &Arenas, v: Result<Value, RtErr>) -> (res: Result<SBuf, RtErr>)",
           expect_sig=r"fn eval_required_string\(\s*&mut self,\s*expr: ExprRef<'a>,\s*span: Span,?\s*\) -> Result<ArenaString<'a>, RuntimeError>",
           requires=["me.wf()"],
           ensures=["res is Ok <==> (v is Ok && ty(v->Ok_0) == Ty::Str)",
                    "res is Ok ==> res->Ok_0.region@ == Region::Persist",
                    "v is Ok && res is Err ==> res->Err_0 == RtErr::TypeMismatch"],
           rewrites=[Rw("R11b", r"let value = self\.eval_expr\(expr\)\?;", "let value = v?;"),
                     Rw("R8", r"ArenaString::from_str\(self\.(arena|frame), &text\)", r"sbuf_in(me.\1)", min_matches=0),
                     Rw("R8", r"text\.into_owned\(self\.(arena|frame)\)", r"into_owned_in(text, me.\1)", min_matches=0), ERR],
           vacuity="me: &Arenas, v: Result<Value, RtErr>",
           real_name="Runtime::eval_required_string"),
        Raw('''
impl Args {
    // `self.eval_required_string(args.args[k], span)` by its contract above
    #[verifier::external_body]
    pub fn required_string(&self, k: usize) -> (r: Result<SBuf, RtErr>) requires k < self.n()
        ensures r is Ok ==> r->Ok_0.region@ == Region::Persist { unimplemented!() }
}
'''),
        Fn("eval_process_command_call_mut", impl="impl Runtime",
           sig="fn eval_process_command_call_mut(me: &Arenas, builtin: ProcessCommandBuiltin, args: &Args) -> (res: Result<Value, RtErr>)",
           expect_sig=r"fn eval_process_command_call_mut\(\s*&mut self,\s*receiver: ExprRef<'a>,\s*builtin: ProcessCommandBuiltin,\s*field: &'a str,\s*args: &'a ArgList<'a>,\s*span: Span,?\s*\) -> Result<Value<'a>, RuntimeError>",
           requires=["me.wf()", "cmd_mut(builtin)", "args.n() == cmd_arity(builtin)"],
           ensures=["true"],
           rewrites=[ARG_EVAL,
                     Rw("R9", r"self\.eval_required_string\(args\.args\[(\d)\], span\)", r"args.required_string(\1)", min_matches=2),
                     Rw("R9", r"let \w+ = self\.eval_timeout_ms\(args\.args\[(\d)\], span\)\?;", r"args.eval_timeout(\1)?;", min_matches=1),
                     Rw("R8", r"GlobalBuiltin::to_string\(self\.(arena|frame), &value\)", r"sbuf_in(me.\1)", min_matches=3),
                     Rw("R9", r"let command = self\.get_mutable_process_command\(receiver, span, field\)\?;", "get_mut_receiver()?;", min_matches=13),
                     Rw("R8", r"command\.(?:push_arg|set_cwd|set_stdin_text)\((\w+)\);", r"cmd_store(\1);", min_matches=3),
                     Rw("R8", r"command\.set_env\((\w+), (\w+)\);", r"cmd_store(\1); cmd_store(\2);", min_matches=1),
                     Rw("R13", r"command\.set_(?:stdin_policy|stdout_policy|stderr_policy|timeout_ms)\([^;]*\);", "", min_matches=9)],
           vacuity="me: &Arenas, builtin: ProcessCommandBuiltin, args: &Args",
           real_name="Runtime::eval_process_command_call_mut (residence of stored strings)"),
    ],
)
