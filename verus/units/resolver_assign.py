import sys, pathlib
sys.path.insert(0, str(pathlib.Path(__file__).resolve().parent.parent))
from vlib.vextract import VUnit, Fn, Const, Raw, Rw, Enum, Block, Struct

PRE = r'''
pub struct Name { pub id: Ghost<int> }      // a variable name (`&str`); equality of names is equality of ids
pub struct LocalId { pub g: Ghost<int> }
pub struct ExprH { pub g: Ghost<int> }      // the initializer expression
'''

MODEL = r'''
// Ghost record of the resolver state this arm touches: the entries (name, static type) of the CURRENT block scope, in declaration
// order, whether the initializer has been checked / typed yet, and whether the scope has been modified yet.
pub struct G {
    pub scope: Ghost<Seq<(int, ValueType)>>,
    pub checked: Ghost<bool>,
    pub modified: Ghost<bool>,
    pub decl_at: Ghost<int>,                    // index of the entry the last set_type_at / push_decl wrote
    pub init_ty: Ghost<Option<ValueType>>,      // what infer_expr_type gives for the initializer in the scope as it was BEFORE this statement
}
// entry i is the one a later use of name n in this scope sees: the last entry with that name
pub open spec fn is_last(s: Seq<(int, ValueType)>, n: int, i: int) -> bool {
    0 <= i < s.len() && s[i].0 == n && forall|j: int| i < j < s.len() ==> (#[trigger] s[j]).0 != n
}
pub open spec fn absent(s: Seq<(int, ValueType)>, n: int) -> bool { forall|j: int| 0 <= j < s.len() ==> (#[trigger] s[j]).0 != n }
impl G {
    #[verifier::external_body]
    pub fn is_reserved(&self, var: &Name) -> (r: bool) { unimplemented!() }
    // self.check_expr(expr): resolves the names in the initializer -- against the scope as it is at that moment
    #[verifier::external_body]
    pub fn check_expr(&mut self, e: &ExprH)
        requires !old(self).modified@
        ensures final(self).checked@, final(self).scope@ == old(self).scope@, final(self).modified@ == old(self).modified@, final(self).init_ty@ == old(self).init_ty@, final(self).decl_at@ == old(self).decl_at@
    { unimplemented!() }
    // self.infer_expr_type(expr): likewise
    #[verifier::external_body]
    pub fn infer_expr_type(&self, e: &ExprH) -> (r: Option<ValueType>)
        requires !self.modified@
        ensures r == self.init_ty@
    { unimplemented!() }
    // `.iter().rposition(|(name, ..)| name == var)` on the current scope
    #[verifier::external_body]
    pub fn rposition(&self, var: &Name) -> (r: Option<usize>)
        ensures match r { Some(i) => is_last(self.scope@, var.id@, i as int), None => absent(self.scope@, var.id@) }
    { unimplemented!() }
    // `current_scope[slot].3`
    #[verifier::external_body]
    pub fn local_id_at(&self, slot: usize) -> (r: LocalId) requires slot < self.scope@.len() { unimplemented!() }
    // `current_scope[slot].1 = ty`
    #[verifier::external_body]
    pub fn set_type_at(&mut self, slot: usize, ty: ValueType)
        requires slot < old(self).scope@.len()
        ensures final(self).scope@ == old(self).scope@.update(slot as int, (old(self).scope@[slot as int].0, ty)), final(self).modified@, final(self).decl_at@ == slot,
                final(self).checked@ == old(self).checked@, final(self).init_ty@ == old(self).init_ty@
    { unimplemented!() }
    // `current_scope.push((var, ty, var_span, local_id))`
    #[verifier::external_body]
    pub fn push_decl(&mut self, var: &Name, ty: ValueType, id: LocalId)
        ensures final(self).scope@ == old(self).scope@.push((var.id@, ty)), final(self).modified@, final(self).decl_at@ == old(self).scope@.len(),
                final(self).checked@ == old(self).checked@, final(self).init_ty@ == old(self).init_ty@
    { unimplemented!() }
    #[verifier::external_body]
    pub fn new_local(&mut self) -> (r: LocalId)
        ensures final(self).scope@ == old(self).scope@, final(self).modified@ == old(self).modified@, final(self).checked@ == old(self).checked@, final(self).init_ty@ == old(self).init_ty@, final(self).decl_at@ == old(self).decl_at@
    { unimplemented!() }
}
pub open spec fn decl_ty(t: Option<ValueType>) -> ValueType { match t { Some(x) => x, None => ValueType::Dynamic } }
'''

UNIT = VUnit(
    name="resolver_assign",
    props=["C04", "C09"],
    source="src/resolver.rs",
    preamble=PRE,
    trusted=["the resolver state is a ghost record (current scope entries, checked/modified flags); each shim states what the real expression does to it: rposition = last entry with that name, `[slot].1 = t` updates one entry's type, push appends",
             "facts recording (record_stmt_local, record_stmt_write, push_local_decl) and effect classification are dropped (R13)"],
    items=[
        Enum("ValueType", source="src/helpers.rs", derive="#[derive(Clone, Copy)]", eq=True),
        Raw(MODEL),
        # `make x get e`: e is resolved and typed in the scope as it was BEFORE x is (re)declared (so `make x get x add 1` reads the outer
        # x), and afterwards the visible static type of x in this scope is the type of e (dynamic if e has none) whether x is new here or
        # re-declared; no other name's visible type changes
        Block("declare_variable", within="check_stmt", impl="impl Resolver", arm=True,
              anchor=r"Stmt::Assign \{ var, var_span, expr, \.\. \} =>",
              sig="fn declare_variable(g: &mut G, var: &Name, expr: &ExprH) -> (e_reserved: bool)",
              prologue="    let mut e_ReservedKeyword = false;", epilogue="    ;\n    e_ReservedKeyword",
              requires=["!old(g).modified@", "!old(g).checked@"],
              ensures=["final(g).checked@",
                       # the visible entry for x now has the initializer's type
                       "is_last(final(g).scope@, var.id@, final(g).decl_at@) && final(g).scope@[final(g).decl_at@].1 == decl_ty(old(g).init_ty@)",
                       # whole-view frame: entries are only appended, and only an entry of x itself may have changed
                       "final(g).scope@.len() == old(g).scope@.len() || (final(g).scope@.len() == old(g).scope@.len() + 1 && final(g).scope@.last().0 == var.id@ && absent(old(g).scope@, var.id@))",
                       "forall|j: int| 0 <= j < old(g).scope@.len() ==> (#[trigger] final(g).scope@[j]).0 == old(g).scope@[j].0 && (final(g).scope@[j] != old(g).scope@[j] ==> old(g).scope@[j].0 == var.id@)"],
              rewrites=[Rw("R9", r"GlobalBuiltin::from_name\(var\)\.is_some\(\)", "g.is_reserved(var)", min_matches=1),
                        Rw("R6", r"self\.emit_error\(\s*\*var_span,\s*SemanticError::(\w+),.*?\}\],\s*\);?", r"{ e_\1 = true; }", min_matches=1),
                        Rw("R9", r"self\.check_expr\(expr\)", "g.check_expr(expr)", min_matches=1),
                        Rw("R13", r"self\.set_stmt_expr_class\(self\.classify_expr\(expr\)\);", "", min_matches=1),
                        Rw("R9", r"self\.infer_expr_type\(expr\)", "g.infer_expr_type(expr)", min_matches=1),
                        Rw("R9", r"self\s*\.variable_scopes\s*\.last\(\)\s*\.expect\(\"scope stack should never be empty\"\)\s*\.iter\(\)\s*\.rposition\(\|\(name, \.\.\)\| name == var\)", "g.rposition(var)", min_matches=1),
                        Rw("R9", r"self\s*\.variable_scopes\s*\.last\(\)\s*\.expect\(\"scope stack should never be empty\"\)\s*\[slot\]\s*\.3", "g.local_id_at(slot)", min_matches=1),
                        Rw("R9", r"self\s*\.variable_scopes\s*\.last_mut\(\)\s*\.expect\(\"scope stack should never be empty\"\)\s*\[slot\]\s*\.1 = (\w+);", r"g.set_type_at(slot, \1);", min_matches=1),
                        Rw("R9", r"self\s*\.variable_scopes\s*\.last_mut\(\)\s*\.expect\(\"scope stack should never be empty\"\)\s*\.push\(\((\w+), (\w+), var_span, local_id\)\);", r"g.push_decl(\1, \2, local_id);", min_matches=1),
                        Rw("R13", r"self\.facts\.record_stmt_local\(stmt, local_id\);|self\.record_stmt_write\(local_id\);|let scope_id = self\.current_scope\(\);", "", min_matches=5),
                        Rw("R9", r"self\.facts\.push_local_decl\(\s*var,\s*self\.current_owner,\s*scope_id,\s*\*var_span,\s*stmt_id,?\s*\)", "g.new_local()", min_matches=1)],
              real_name="Resolver::check_stmt (Stmt::Assign arm: declaration / re-declaration)"),
    ],
)
