import sys, pathlib
sys.path.insert(0, str(pathlib.Path(__file__).resolve().parent.parent))
from vlib.vextract import VUnit, Fn, Const, Raw, Rw, Enum, Block, Struct
from verus.units.parser_progress import PRE, MODEL

PAREN = r'''
pub struct ExprH { pub id: Ghost<int> }
pub uninterp spec fn parsed_at(toks: Seq<Token>, pos: nat, bp: u8) -> (int, nat);   // (expression, position after it) that parse_expression(bp) yields at pos
impl P {
    // the recursive call `self.parse_expression(bp)`: some expression, some tokens consumed -- a function of the token sequence and position
    #[verifier::external_body]
    pub fn parse_expression(&mut self, bp: u8) -> (r: ExprH)
        ensures final(self).toks@ == old(self).toks@, r.id@ == parsed_at(old(self).toks@, old(self).pos@, bp).0, final(self).pos@ == parsed_at(old(self).toks@, old(self).pos@, bp).1
    { unimplemented!() }
    // Operators, calls and indexing that FOLLOW a primary are attached by parse_expression itself, once, with the binding power of ITS
    // caller (`self.parse_expression_continuation(lhs, min_bp)` at its end).  A primary arm that ran the continuation on its own would
    // regroup what follows a closing parenthesis: `2 times (3) add 4` would become 2 times ((3) add 4).
    #[verifier::external_body]
    pub fn parse_expression_continuation(&mut self, lhs: ExprH, bp: u8) -> (r: ExprH) requires false { unimplemented!() }
}
'''

UNIT = VUnit(
    name="parser_paren",
    props=["C10"],
    source="src/syntax/parser.rs",
    preamble=PRE,
    trusted=["the token stream is a ghost sequence (unit parser_progress); the recursive parse_expression call is a shim returning an uninterpreted function of (tokens, position, binding power)",
             "diagnostic emission is dropped from the arm (R6)"],
    items=[
        Enum("Token", source="src/syntax/token.rs", derive="", rewrites=[Rw("R12", r"ArenaCow<'a>", "StrV"), Rw("R12", r"&'a str", "StrV"), Rw("R1", r"#\[default\]", "")]),
        Raw(MODEL), Raw(PAREN),
        # redundant parentheses do not change the expression: `( e )` as a primary is exactly the node e parsed with binding power 0 -- no
        # wrapper node, nothing attached to it here -- and consumes `(`, e and a following `)`
        Block("paren_primary", within="parse_expression_unguarded", impl="impl Parser", arm=True,
              anchor=r"Token::LParen =>",
              sig="fn paren_primary(p: &mut P) -> (res: ExprH)",
              requires=["old(p).pos@ < old(p).toks@.len()"],
              ensures=["res.id@ == parsed_at(old(p).toks@, old(p).pos@ + 1, 0).0",
                       "final(p).toks@ == old(p).toks@",
                       "({ let after = parsed_at(old(p).toks@, old(p).pos@ + 1, 0).1; final(p).pos@ == after || final(p).pos@ == after + 1 })"],
              rewrites=[Rw("R2", r"self\.bump\(\)", "p.bump()", min_matches=2),
                        Rw("R9", r"self\.parse_expression\(", "p.parse_expression(", min_matches=1),
                        Rw("R9", r"self\.parse_expression_continuation\(", "p.parse_expression_continuation(", min_matches=0),
                        Rw("R2", r"self\.cur\.token", "*p.cur_token()", min_matches=1),
                        Rw("R6", r"self\.emit_error\(\s*self\.cur\.span,.*?\}\],\s*\);", "", min_matches=1)],
              real_name="Parser::parse_expression_unguarded (parenthesised primary arm)"),
    ],
)
