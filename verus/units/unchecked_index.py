import sys, pathlib
sys.path.insert(0, str(pathlib.Path(__file__).resolve().parent.parent))
from vlib.vextract import VUnit, Fn, Const, Raw, Rw, Enum, Block, Struct
from verus.units.eval_ops import PRE, PAY, ERR

MODEL = r'''
pub enum Ty { Number, Str, Bool, Null, Array, Host }
pub open spec fn ty(v: Value) -> Ty {
    match v {
        Value::Number(_) => Ty::Number, Value::Str(_) => Ty::Str, Value::Bool(_) => Ty::Bool,
        Value::Null => Ty::Null, Value::Array(_) => Ty::Array, Value::Host(_) => Ty::Host,
    }
}
// `Vec<Value, &Arena>`: only its length matters here.  A Vec never holds more than isize::MAX elements.
pub struct Items { pub n: Ghost<nat> }
impl Items {
    pub open spec fn wf(&self) -> bool { self.n@ <= isize::MAX as nat }
    #[verifier::external_body]
    pub fn len(&self) -> (r: usize) ensures r == self.n@ { unimplemented!() }
    // items.len().cast_signed()
    #[verifier::external_body]
    pub fn len_signed(&self) -> (r: isize) requires self.wf() ensures r == self.n@ { unimplemented!() }
    // the unsafe access: its SAFETY condition is the precondition
    #[verifier::external_body]
    pub fn get_unchecked_mut(&mut self, k: usize) -> (r: &mut Value) requires k < old(self).n@ ensures final(self).n@ == old(self).n@ { unimplemented!() }
}
// `x.is_finite() && x.fract() == 0.0`
#[verifier::external_body]
fn f64_is_whole(x: f64) -> (r: bool) { unimplemented!() }
// `x as isize` (saturating float-to-int cast: some isize)
#[verifier::external_body]
fn f64_as_isize(x: f64) -> (r: isize) { unimplemented!() }
// isize::cast_unsigned: bit reinterpretation; the identity on non-negative values
#[verifier::external_body]
fn cast_unsigned(i: isize) -> (r: usize) ensures i >= 0 ==> r == i { unimplemented!() }
#[verifier::external_body]
fn take_slot(slot: &mut Value) -> (r: Value) { unimplemented!() }
impl Items {
    // `mem::replace(&mut items[k], v)`: a checked index; panics when k is out of range
    #[verifier::external_body]
    pub fn replace_at(&mut self, k: usize, v: Value) -> (r: Value) requires k < old(self).n@ ensures final(self).n@ == old(self).n@ { unimplemented!() }
}
'''

WALK_RW = [Rw("R3", r"slot = unsafe \{ items\.get_unchecked_mut\(\*idx\) \};", "let _next = items.get_unchecked_mut(*idx);", min_matches=1),
           Rw("R6", r"Err\(RuntimeError::new\(\s*RuntimeErrorKind::(\w+),\s*(?:[^()]|\([^()]*\))*\)\)", r"Err(RtErr::\1)", min_matches=1)]

def walk(name, within, extra=()):
    return Block(name, within=within, impl="impl Runtime",
                 anchor=r"Value::Array\(items\) => ",
                 sig=f"fn {name}(items: &mut Items, idx: &usize) -> (res: Result<(), RtErr>)",
                 epilogue="    Ok(())",
                 ensures=["res is Ok ==> *idx < old(items).n@"],
                 rewrites=list(extra) + WALK_RW,
                 real_name=f"Runtime::{within} (index walk: bounds check before the unchecked access)")

UNIT = VUnit(
    name="unchecked_index",
    props=["C06"],
    source="src/runtime.rs",
    preamble=PRE.replace("pub struct ArrV { pub g: Ghost<int> }", "pub type ArrV = Items;"),
    trusted=["`get_unchecked_mut(k)` is a shim whose precondition `k < len` is exactly its SAFETY condition; float tests and casts are shims stating the std facts used (a Vec has at most isize::MAX elements; cast_unsigned is the identity on non-negative values; `x as isize` is some isize)",
             "the walk over nested arrays (`slot = ..` reborrow) is reduced to one level per block: what is decided is that each unchecked access is dominated by its bounds check"],
    items=[
        Enum("Value", derive="", rewrites=[
            Rw("R12", r"ArenaCow<'a>", "StrV"), Rw("R12", r"Vec<Value<'a>, &'a Arena>", "ArrV"), Rw("R12", r"HostHandle<'a>", "HostV"),
        ]),
        Raw(MODEL),
        # reading `a[i]`: every way of getting past the checks leaves 0 <= idx < len, so the unchecked access is in bounds; a non-number,
        # non-finite or fractional index is InvalidIndex, anything else outside the array IndexOutOfBounds
        Block("index_read", within="eval_expr", impl="impl Runtime", arm=True,
              anchor=r"Expr::Index \{ array, index, index_span, \.\. \} =>",
              sig="fn index_read(array_value0: Value, index_value0: Value) -> (res: Result<Value, RtErr>)",
              requires=["array_value0 matches Value::Array(a) ==> a.wf()"],
              ensures=["res is Ok ==> ty(array_value0) == Ty::Array && ty(index_value0) == Ty::Number",
                       "ty(array_value0) != Ty::Array ==> res == Err::<Value, RtErr>(RtErr::TypeMismatch)",
                       "ty(array_value0) == Ty::Array && ty(index_value0) != Ty::Number ==> res == Err::<Value, RtErr>(RtErr::InvalidIndex)"],
              rewrites=[Rw("R11b", r"self\.eval_expr\(array\)\?", "array_value0", min_matches=1),
                        Rw("R11b", r"self\.eval_expr\(index\)\?", "index_value0", min_matches=1),
                        Rw("R9", r"!index_number\.is_finite\(\) \|\| index_number\.fract\(\) != 0\.0", "!f64_is_whole(index_number)", min_matches=1),
                        Rw("R9", r"index_number as isize", "f64_as_isize(index_number)", min_matches=1),
                        Rw("R9", r"items\.len\(\)\.cast_signed\(\)", "items.len_signed()", min_matches=1),
                        Rw("R3", r"unsafe \{ items\.get_unchecked_mut\(idx\.cast_unsigned\(\)\) \}", "items.get_unchecked_mut(cast_unsigned(idx))", min_matches=1),
                        Rw("R9", r"mem::replace\(slot, Value::Null\)", "take_slot(slot)", min_matches=1),
                        ERR],
              real_name="Runtime::eval_expr (Expr::Index arm: index validation before the unchecked access)"),
        walk("walk_get_mutable_array", "get_mutable_array"),
        walk("walk_get_mutable_process_command", "get_mutable_process_command"),
        Block("walk_assign_index", within="assign_index", impl="impl Runtime",
              anchor=r"Value::Array\(items\) => ",
              sig="fn walk_assign_index(items: &mut Items, idx: &usize, is_last: bool, value: Value) -> (res: Result<(), RtErr>)",
              epilogue="    Ok(())",
              ensures=["res is Ok ==> *idx < old(items).n@"],
              rewrites=[Rw("R9", r"mem::replace\(&mut items\[\*idx\], value\)", "items.replace_at(*idx, value)", min_matches=1),
                        Rw("R13", r"unsafe \{ old\.return_to_pool\(&self\.pool\) \};", "", min_matches=1)] + WALK_RW,
              real_name="Runtime::assign_index (index walk: bounds check before the element store and the unchecked access)"),
    ],
)
