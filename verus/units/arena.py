import sys, pathlib
sys.path.insert(0, str(pathlib.Path(__file__).resolve().parent.parent))
from vlib.vextract import VUnit, Fn, Const, Raw, Rw

PRE = r'''
global size_of usize == 8;
pub const KIBI: usize = 1024;

// Abstract state of the bump arena: (capacity, commit, offset).  `base` and the bytes are dropped: a returned block is the pair
// (beg, len) relative to base -- its CONTENTS are decided by the Kani harnesses (engine K runs the real pointer code).
pub struct Arena { pub capacity: usize, pub commit: usize, pub offset: usize }
pub struct AllocError;
pub struct Block { pub beg: usize, pub len: usize }

pub open spec fn chunk() -> int { 65536 }
pub open spec fn wf(a: Arena) -> bool {
    a.offset <= a.commit && a.commit <= a.capacity && a.commit as int % chunk() == 0 && a.capacity as int % chunk() == 0
    // virtual reservations are far below 2^61 bytes (mmap would refuse): keeps end + 64 KiB from wrapping
    && a.capacity <= 0x2000_0000_0000_0000
}
pub open spec fn is_pow2(a: usize) -> bool {
    a > 0 && a & sub(a, 1) == 0
}
pub open spec fn roundup(x: int) -> int { ((x + chunk() - 1) / chunk()) * chunk() }

// Cell::replace (R2): stores the new value and returns the old one
fn cell_replace(c: &mut usize, v: usize) -> (prev: usize)
    ensures *final(c) == v, prev == *old(c),
{ let p = *c; *c = v; p }

// `NonNull::slice_from_raw_parts(self.base.add(beg), len)` (R5): the pointer arithmetic must stay inside the reservation
fn mk_block(capacity: usize, beg: usize, len: usize) -> (b: Block)
    requires beg <= capacity,
    ensures b.beg == beg, b.len == len,
{ Block { beg, len } }

// foreign: sys::virtual_memory::commit(base + at, size).is_err()  -- may fail; the range must lie inside the reservation
#[verifier::external_body]
fn vm_commit_fails(capacity: usize, at: usize, size: usize) -> (failed: bool)
    requires at + size <= capacity,
{ false }

// foreign: sys::virtual_memory::decommit(base + at, size)
#[verifier::external_body]
fn vm_decommit(capacity: usize, at: usize, size: usize)
    requires at + size <= capacity, at as int % chunk() == 0,
{ }

proof fn lemma_align_up(x: usize, a: usize)
    requires is_pow2(a), x <= 0x7fff_ffff_ffff_ffff, a <= 0x4000_0000_0000_0000,
    ensures
        x + a - 1 <= usize::MAX,
        ({ let r = ((x + a - 1) as usize) & !((a - 1) as usize); r >= x && r - x < a && r & ((a - 1) as usize) == 0 }),
{
    let y = (x + a - 1) as usize;
    let m = (a - 1) as usize;
    assert(y == add(x, sub(a, 1)));
    assert(m == sub(a, 1));
    assert((add(x, sub(a, 1)) & !sub(a, 1)) >= x && sub(add(x, sub(a, 1)) & !sub(a, 1), x) < a && ((add(x, sub(a, 1)) & !sub(a, 1)) & sub(a, 1)) == 0) by (bit_vector)
        requires a & sub(a, 1) == 0, a > 0, x <= 0x7fff_ffff_ffff_ffffusize, a <= 0x4000_0000_0000_0000usize;
}

proof fn lemma_chunk_up(x: usize)
    requires x <= 0x7fff_ffff_ffff_0000,
    ensures ({ let r = ((x + 65535) as usize) & !(65535usize); r as int == roundup(x as int) && r >= x && r - x < 65536 && r as int % chunk() == 0 }),
{
    let y = (x + 65535) as usize;
    assert(y & !65535usize == mul(y / 65536, 65536)) by (bit_vector);
    assert(mul(y / 65536, 65536) == (y / 65536) * 65536) by {
        assert((y / 65536) * 65536 <= y) by (nonlinear_arith);
    }
}
'''

CELL = [
    Rw("R2", r"self\.(commit|offset)\.get\(\)", r"self.\1", min_matches=0),
    Rw("R2", r"self\.(commit|offset)\.set\(([^;]+)\);", r"self.\1 = \2;", min_matches=0),
    Rw("R2", r"self\.(commit|offset)\.replace\(", r"cell_replace(&mut self.\1, ", min_matches=0),
    Rw("R7", r"if cfg!\(debug_assertions\)( && [^{]*)? \{.*?\n        \}\n", "", min_matches=0),
    Rw("R10", r"\bALLOC_CHUNK_SIZE\b", "65536usize", min_matches=0),
]

UNIT = VUnit(
    name="arena",
    props=["C11", "C14"],
    source="src/arena/bump.rs",
    preamble=PRE + "\nimpl Arena {\n",
    epilogue=r"""
} // impl Arena

// Lemmas over the contracts (no code): the property's "does not overlap any other block handed out since the last reset below it"
// and "after a reset to an earlier mark later allocations reuse exactly the space above that mark".
proof fn lemma_successive_blocks_disjoint(a0: Arena, b1: Block, a1: Arena, b2: Block)
    requires
        // alloc_raw's Ok postcondition for the first call (state a0 -> a1, block b1) ...
        b1.beg >= a0.offset, b1.beg + b1.len == a1.offset,
        // ... and for a later call made from any state whose offset has not been reset below a1.offset
        b2.beg >= a1.offset,
    ensures b1.beg + b1.len <= b2.beg,   // the later block starts at or above the earlier block's end
{ }

proof fn lemma_blocks_after_reset_start_at_mark(mark: usize, a: Arena, b: Block)
    requires a.offset == mark, b.beg >= a.offset, b.beg - a.offset < 1,   // reset(mark) then alloc_raw(.., alignment 1)
    ensures b.beg == mark,                                                 // exactly the space above the mark is reused
{ }
""",
    global_rewrites=CELL,
    trusted=["Cell<usize> fields read/written as plain fields (R2: the arena is !Sync, single thread)",
             "debug poison fills (`if cfg!(debug_assertions) {..}`) removed (R7): they are inside the code Kani executes under C11",
             "the block a pointer denotes is abstracted to (beg, len) relative to base (R5)",
             "reservations and single requests are at most 2^61 bytes, alignments at most 2^32 (arithmetic cannot wrap; Kani covers the wrap-around corner on small capacities with every alignment 1<<k, k<63)"],
    lemma_obligations=["lemma_align_up", "lemma_chunk_up", "lemma_successive_blocks_disjoint", "lemma_blocks_after_reset_start_at_mark"],
    items=[
        Fn("alloc_raw_bump", impl="impl Arena",
           expect_sig=r"fn alloc_raw_bump\(&self, beg: usize, end: usize\) -> Result<NonNull<\[u8\]>, AllocError>",
           sig="fn alloc_raw_bump(&mut self, beg: usize, end: usize) -> (r: Result<Block, AllocError>)",
           requires=["wf(*old(self))", "old(self).offset <= beg <= end", "end > old(self).commit", "end <= 0x7fff_ffff_ffff_0000"],
           ensures=["wf(*final(self))", "final(self).capacity == old(self).capacity",
                    "r is Ok ==> r->Ok_0.beg == beg && r->Ok_0.len == end - beg && final(self).offset == end && final(self).commit as int == roundup(end as int) && final(self).commit <= final(self).capacity",
                    "r is Err ==> final(self).offset == old(self).offset && final(self).commit == old(self).commit",
                    # fails cleanly, and only for one of the two legitimate reasons
                    "roundup(end as int) > old(self).capacity ==> r is Err"],
           rewrites=[
               Rw("R9", r"unsafe \{\s*sys::virtual_memory::commit\(self\.base\.add\(commit_old\), commit_new - commit_old\)\s*\.is_err\(\)\s*\}", "vm_commit_fails(self.capacity, commit_old, commit_new - commit_old)"),
               Rw("R5", r"unsafe \{ NonNull::slice_from_raw_parts\(self\.base\.add\(beg\), end - beg\) \}", "mk_block(self.capacity, beg, end - beg)"),
           ],
           inserts=[(r"let commit_new = ", 1, "proof { lemma_chunk_up(end); }", "after")],
           vacuity="a: Arena, beg: usize, end: usize", vacuity_subst=[("*old(self)", "a"), ("old(self)", "a")], real_name="Arena::alloc_raw_bump"),
        Fn("alloc_raw", impl="impl Arena",
           expect_sig=r"fn alloc_raw\( &self, bytes: usize, alignment: usize, \) -> Result<NonNull<\[u8\]>, AllocError>",
           sig="fn alloc_raw(&mut self, bytes: usize, alignment: usize) -> (r: Result<Block, AllocError>)",
           # the Layout invariant: power-of-two alignment, size rounded up to it fits isize
           requires=["wf(*old(self))", "is_pow2(alignment)", "alignment <= 0x1_0000_0000", "bytes <= 0x2000_0000_0000_0000"],
           ensures=["wf(*final(self))", "final(self).capacity == old(self).capacity",
                    # Ok: the block lies above everything handed out before, is aligned, in bounds, and the offset is its end
                    "r is Ok ==> r->Ok_0.len == bytes && r->Ok_0.beg >= old(self).offset && r->Ok_0.beg - old(self).offset < alignment && r->Ok_0.beg & ((alignment - 1) as usize) == 0",
                    "r is Ok ==> r->Ok_0.beg + bytes == final(self).offset && final(self).offset <= final(self).commit && final(self).commit >= old(self).commit",
                    # Err: nothing changed
                    "r is Err ==> final(self).offset == old(self).offset && final(self).commit == old(self).commit"],
           rewrites=[Rw("R5", r"Ok\(unsafe \{ NonNull::slice_from_raw_parts\(self\.base\.add\(beg\), bytes\) \}\)", "Ok(mk_block(self.capacity, beg, bytes))")],
           inserts=[(r"let beg = ", 1, "proof { lemma_align_up(offset, alignment); }", "after")],
           vacuity="a: Arena, bytes: usize, alignment: usize", vacuity_subst=[("*old(self)", "a"), ("old(self)", "a")], real_name="Arena::alloc_raw"),
        Fn("reset", impl="impl Arena",
           expect_sig=r"pub unsafe fn reset\(&self, to: usize\)",
           sig="fn reset(&mut self, to: usize)",
           requires=["wf(*old(self))", "to <= old(self).offset"],
           ensures=["wf(*final(self))", "final(self).offset == to", "final(self).commit == old(self).commit", "final(self).capacity == old(self).capacity"],
           vacuity="a: Arena, to: usize", vacuity_subst=[("*old(self)", "a"), ("old(self)", "a")], real_name="Arena::reset"),
        Fn("decommit", impl="impl Arena",
           expect_sig=r"pub fn decommit\(&self\)",
           sig="fn decommit(&mut self)",
           requires=["wf(*old(self))"],
           ensures=["wf(*final(self))", "final(self).offset == old(self).offset", "final(self).capacity == old(self).capacity",
                    "final(self).commit as int == if roundup(old(self).offset as int) < old(self).commit { roundup(old(self).offset as int) } else { old(self).commit as int }"],
           rewrites=[Rw("R9", r"unsafe \{\s*sys::virtual_memory::decommit\(self\.base\.add\(keep\), commit - keep\);\s*\}", "vm_decommit(self.capacity, keep, commit - keep);")],
           inserts=[(r"let keep = ", 1, "proof { lemma_chunk_up(offset); }", "after")],
           vacuity="a: Arena", vacuity_subst=[("*old(self)", "a"), ("old(self)", "a")], real_name="Arena::decommit"),
    ],
)
