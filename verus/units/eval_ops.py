import sys, pathlib
sys.path.insert(0, str(pathlib.Path(__file__).resolve().parent.parent))
from vlib.vextract import VUnit, Fn, Const, Raw, Rw, Enum, Block

# nested-parenthesis payload (depth <= 3)
BAL = r"(?:[^()]|\((?:[^()]|\((?:[^()]|\([^()]*\))*\))*\))*"

PRE = r'''
// Payloads of Value that the dispatch never inspects are abstract: what is decided here is WHICH arm runs for which
// (operator, runtime type, runtime type), not the arithmetic/strings computed inside an arm.
pub struct StrV { pub g: Ghost<int> }
pub struct ArrV { pub g: Ghost<int> }
pub struct HostV { pub g: Ghost<int> }
#[derive(PartialEq, Eq, Clone, Copy)]
pub enum RtErr { DivisionByZero, TypeMismatch, InvalidIndex, IndexOutOfBounds }
// R12 replaces every payload expression `Value::X(<expr>)` in a result by `Value::X(unk())`
#[verifier::external_body]
fn unk<T>() -> (r: T) { unimplemented!() }
'''

SPEC = r'''
pub enum Ty { Number, Str, Bool, Null, Array, Host }
pub open spec fn ty(v: Value) -> Ty {
    match v {
        Value::Number(_) => Ty::Number, Value::Str(_) => Ty::Str, Value::Bool(_) => Ty::Bool,
        Value::Null => Ty::Null, Value::Array(_) => Ty::Array, Value::Host(_) => Ty::Host,
    }
}
// the documented operator table over runtime types (same table as unit static_rules::rt_ok)
pub open spec fn rt_ok(op: BinaryOp, a: Ty, b: Ty) -> bool {
    match op {
        BinaryOp::Add => (a == Ty::Number || a == Ty::Str) && (b == Ty::Number || b == Ty::Str),
        BinaryOp::Minus | BinaryOp::Times | BinaryOp::Divide | BinaryOp::Mod => a == Ty::Number && b == Ty::Number,
        BinaryOp::Eq | BinaryOp::Gt | BinaryOp::Lt =>
            a == Ty::Null || b == Ty::Null || (a == b && (a == Ty::Number || a == Ty::Str || a == Ty::Bool)),
        BinaryOp::And | BinaryOp::Or => (a == Ty::Bool || a == Ty::Null) && (b == Ty::Bool || b == Ty::Null),
    }
}
pub open spec fn result_ty(op: BinaryOp, a: Ty, b: Ty) -> Ty {
    match op {
        BinaryOp::Add => if a == Ty::Number && b == Ty::Number { Ty::Number } else { Ty::Str },
        BinaryOp::Minus | BinaryOp::Times | BinaryOp::Divide | BinaryOp::Mod => Ty::Number,
        _ => Ty::Bool,
    }
}
// evaluation events of the two operands of one `and` / `or` (the operand VALUES are fixed ghosts; what is recorded is how often each
// operand expression is evaluated: an operand may print, assign or call)
pub struct Ev { pub lhs: Ghost<Value>, pub rhs: Ghost<Value>, pub lhs_evals: Ghost<nat>, pub rhs_evals: Ghost<nat> }
impl Ev {
    #[verifier::external_body]
    pub fn eval_lhs(&mut self) -> (r: Result<Value, RtErr>)
        requires old(self).rhs_evals@ == 0          // left to right
        ensures r == Ok::<Value, RtErr>(old(self).lhs@), final(self).lhs_evals@ == old(self).lhs_evals@ + 1, final(self).rhs_evals@ == old(self).rhs_evals@, final(self).lhs@ == old(self).lhs@, final(self).rhs@ == old(self).rhs@
    { unimplemented!() }
    #[verifier::external_body]
    pub fn eval_rhs(&mut self) -> (r: Result<Value, RtErr>)
        ensures r == Ok::<Value, RtErr>(old(self).rhs@), final(self).rhs_evals@ == old(self).rhs_evals@ + 1, final(self).lhs_evals@ == old(self).lhs_evals@, final(self).lhs@ == old(self).lhs@, final(self).rhs@ == old(self).rhs@
    { unimplemented!() }
}
// the operator applied to two evaluated operands (decided by binary_dispatch)
#[verifier::external_body]
fn apply_operator(l: Value, r: Value) -> (res: Result<Value, RtErr>) { unimplemented!() }
pub open spec fn truthy(v: Value) -> bool { v == Value::Bool(true) }
pub open spec fn boolish(v: Value) -> bool { ty(v) == Ty::Bool || ty(v) == Ty::Null }
'''

ERR = Rw("R6", r"Err\(RuntimeError::new\(\s*RuntimeErrorKind::(\w+),\s*(?:[^()]|\([^()]*\))*\)\)", r"Err(RtErr::\1)", min_matches=0)
PAY = Rw("R12", r"Ok\(Value::(Number|Str|Array|Host)\(" + BAL + r"\)\)", r"Ok(Value::\1(unk()))", min_matches=0)

UNIT = VUnit(
    name="eval_ops",
    props=["C06"],
    source="src/runtime.rs",
    preamble=PRE,
    trusted=["operands are parameters: the sub-expression evaluations (`self.eval_expr(lhs)?`, ...) around each dispatch block are cut off (R11b)",
             "payload computations (f64 arithmetic, string building) are replaced by unk() (R12, R13): only WHICH arm runs is decided",
             "RuntimeError::new(kind, span) is reduced to its kind (R6)"],
    items=[
        Enum("BinaryOp", source="src/syntax/parser.rs"),
        Enum("UnaryOp", source="src/syntax/parser.rs"),
        Enum("Value", derive="", rewrites=[
            Rw("R12", r"ArenaCow<'a>", "StrV"), Rw("R12", r"Vec<Value<'a>, &'a Arena>", "ArrV"), Rw("R12", r"HostHandle<'a>", "HostV"),
        ]),
        Raw(SPEC),
        Block("binary_dispatch", within="eval_expr", impl="impl Runtime",
              anchor=r"let r = self\.eval_expr\(rhs\)\?;\s*match \(l, r\) ",
              sig="fn binary_dispatch(op: &BinaryOp, l: Value, r: Value) -> (res: Result<Value, RtErr>)",
              prologue="    match (l, r) {", epilogue="    }",
              # the enclosing `match op` sends And/Or to their own arms (and_rule / or_rule below)
              requires=["!(*op is And) && !(*op is Or)"],
              ensures=["res is Ok ==> rt_ok(*op, ty(l), ty(r)) && ty(res->Ok_0) == result_ty(*op, ty(l), ty(r))",
                       "res is Err ==> (res->Err_0 == RtErr::DivisionByZero && (*op is Divide || *op is Mod) && ty(l) == Ty::Number && ty(r) == Ty::Number) || (res->Err_0 == RtErr::TypeMismatch && !rt_ok(*op, ty(l), ty(r)))"],
              rewrites=[
                  Rw("R13", r"let n = if \*op == BinaryOp::Divide \{ lv / rv \} else \{ lv % rv \};", "", min_matches=1),
                  Rw("R13", r"let mut writer = LenWriter\(0\);|let mut s =\s*ArenaString::with_capacity_in\([^;]*;|s\.push_str\([^;]*;|write!\([^;]*;", "", min_matches=8),
                  PAY, ERR,
                  Rw("R10", r"!lv & rv", "!lv && rv", min_matches=0),   # Verus has no non-short-circuit bool `&`
                  Rw("R12", r"Value::Bool\(\(lv - rv\)\.abs\(\) <= FLOAT_EQ_EPS\)|Value::Bool\(ls (?:==|>|<) rs\)", "Value::Bool(unk())", min_matches=4),
              ],
              real_name="Runtime::eval_expr (Expr::Binary: operand-type dispatch)"),
        # `and`: short-circuits on a falsy left operand, otherwise the right operand decides and must be boolean or null
        # `and` / `or`: the left operand is evaluated exactly once and first; the right operand is evaluated at most once, and exactly when the
        # left one does not already decide the result (short circuit: a falsy left operand of `and`, a true left operand of `or`)
        Block("and_rule", within="eval_expr", impl="impl Runtime",
              anchor=r"BinaryOp::And => ",
              sig="fn and_rule(me: &mut Ev) -> (res: Result<Value, RtErr>)",
              requires=["old(me).lhs_evals@ == 0 && old(me).rhs_evals@ == 0"],
              ensures=["final(me).lhs_evals@ == 1",
                       "final(me).rhs_evals@ == (if old(me).lhs@ == Value::Bool(false) || old(me).lhs@ == Value::Null { 0nat } else { 1nat })",
                       "(old(me).lhs@ == Value::Bool(false) || old(me).lhs@ == Value::Null) ==> res == Ok::<Value, RtErr>(Value::Bool(false))",
                       "!(old(me).lhs@ == Value::Bool(false) || old(me).lhs@ == Value::Null) && boolish(old(me).rhs@) ==> res == Ok::<Value, RtErr>(Value::Bool(truthy(old(me).rhs@)))",
                       "!(old(me).lhs@ == Value::Bool(false) || old(me).lhs@ == Value::Null) && !boolish(old(me).rhs@) ==> res == Err::<Value, RtErr>(RtErr::TypeMismatch)"],
              rewrites=[Rw("R11b", r"self\.eval_expr\(lhs\)", "me.eval_lhs()"), Rw("R11b", r"self\.eval_expr\(rhs\)", "me.eval_rhs()"), ERR],
              real_name="Runtime::eval_expr (BinaryOp::And arm)"),
        Block("or_rule", within="eval_expr", impl="impl Runtime",
              anchor=r"BinaryOp::Or => ",
              sig="fn or_rule(me: &mut Ev) -> (res: Result<Value, RtErr>)",
              requires=["old(me).lhs_evals@ == 0 && old(me).rhs_evals@ == 0"],
              ensures=["final(me).lhs_evals@ == 1",
                       "final(me).rhs_evals@ == (if old(me).lhs@ == Value::Bool(true) { 0nat } else { 1nat })",
                       "old(me).lhs@ == Value::Bool(true) ==> res == Ok::<Value, RtErr>(Value::Bool(true))",
                       "old(me).lhs@ != Value::Bool(true) && boolish(old(me).rhs@) ==> res == Ok::<Value, RtErr>(Value::Bool(truthy(old(me).rhs@)))",
                       "old(me).lhs@ != Value::Bool(true) && !boolish(old(me).rhs@) ==> res == Err::<Value, RtErr>(RtErr::TypeMismatch)"],
              rewrites=[Rw("R11b", r"self\.eval_expr\(lhs\)", "me.eval_lhs()"), Rw("R11b", r"self\.eval_expr\(rhs\)", "me.eval_rhs()"), ERR],
              real_name="Runtime::eval_expr (BinaryOp::Or arm)"),
        # every other binary operator: both operands are evaluated, exactly once each, the left one first, before the operator is applied
        Block("binary_operand_order", within="eval_expr", impl="impl Runtime",
              anchor=r"_ => (?=\{\s*let l = self\.eval_expr\(lhs\)\?;)",
              sig="fn binary_operand_order(me: &mut Ev) -> (res: Result<Value, RtErr>)",
              requires=["old(me).lhs_evals@ == 0 && old(me).rhs_evals@ == 0"],
              ensures=["final(me).lhs_evals@ == 1 && final(me).rhs_evals@ == 1"],
              rewrites=[Rw("R11b", r"self\.eval_expr\(lhs\)", "me.eval_lhs()", min_matches=1), Rw("R11b", r"self\.eval_expr\(rhs\)", "me.eval_rhs()", min_matches=1),
                        Rw("R11", r"match \(l, r\) \{.*\}", "apply_operator(l, r)", min_matches=1)],
              real_name="Runtime::eval_expr (Expr::Binary: operand evaluation order)"),
        Block("unary_dispatch", within="eval_expr", impl="impl Runtime",
              anchor=r"let v = self\.eval_expr\(expr\)\?;\s*match \(op, v\) ",
              sig="fn unary_dispatch(op: &UnaryOp, v: Value) -> (res: Result<Value, RtErr>)",
              prologue="    match (op, v) {", epilogue="    }",
              ensures=["*op is Not && boolish(v) ==> res == Ok::<Value, RtErr>(Value::Bool(!truthy(v)))",
                       "*op is Minus && ty(v) == Ty::Number ==> res is Ok && ty(res->Ok_0) == Ty::Number",
                       "!((*op is Not && boolish(v)) || (*op is Minus && ty(v) == Ty::Number)) ==> res == Err::<Value, RtErr>(RtErr::TypeMismatch)"],
              rewrites=[PAY, ERR],
              real_name="Runtime::eval_expr (Expr::Unary dispatch)"),
        # conditions: booleans decide, null is falsy, anything else is a reported type mismatch
        Block("if_condition", within="exec_stmt", impl="impl Runtime",
              anchor=r"let is_truthy = match val ",
              sig="fn if_condition(val: Value) -> (res: Result<bool, RtErr>)",
              prologue="    let is_truthy = match val {", epilogue="    };\n    Ok(is_truthy)",
              ensures=["boolish(val) ==> res == Ok::<bool, RtErr>(truthy(val))", "!boolish(val) ==> res == Err::<bool, RtErr>(RtErr::TypeMismatch)"],
              rewrites=[ERR],
              real_name="Runtime::exec_stmt (Stmt::If condition dispatch)"),
        Block("loop_condition", within="exec_stmt", impl="impl Runtime",
              anchor=r"let should_continue = match val ",
              sig="fn loop_condition(val: Value) -> (res: Result<bool, RtErr>)",
              prologue="    let should_continue = match val {", epilogue="    };\n    Ok(should_continue)",
              ensures=["boolish(val) ==> res == Ok::<bool, RtErr>(truthy(val))", "!boolish(val) ==> res == Err::<bool, RtErr>(RtErr::TypeMismatch)"],
              rewrites=[ERR],
              real_name="Runtime::exec_stmt (Stmt::Loop condition dispatch)"),
        Block("index_receiver", within="eval_expr", impl="impl Runtime",
              anchor=r"let Value::Array\(mut items\) = array_value else ",
              sig="fn index_receiver(array_value: Value) -> (res: Result<(), RtErr>)",
              prologue="    let Value::Array(_items) = array_value else {", epilogue="    };\n    Ok(())",
              ensures=["ty(array_value) == Ty::Array ==> res is Ok", "ty(array_value) != Ty::Array ==> res == Err::<(), RtErr>(RtErr::TypeMismatch)"],
              rewrites=[ERR],
              real_name="Runtime::eval_expr (Expr::Index receiver dispatch)"),
    ],
)
