import sys, pathlib
sys.path.insert(0, str(pathlib.Path(__file__).resolve().parent.parent))
from vlib.vextract import VUnit, Fn, Const, Raw, Rw, Enum, Block, Struct

PRE = r'''
#[derive(Clone, Copy)] pub struct StrH { pub g: Ghost<int> }
#[derive(Clone, Copy)] pub struct SpanH { pub g: Ghost<int> }
pub struct PartsH { pub g: Ghost<int> }
pub struct ArgsH { pub g: Ghost<int> }
pub struct ElemsH { pub g: Ghost<int> }
'''

MODEL = r'''
// the variable node an index chain `a[i][j]...` is rooted in (the chain itself when it is not an index)
pub open spec fn base_of<'a>(e: &'a Expr<'a>) -> &'a Expr<'a> decreases e {
    match e { Expr::Index { array, .. } => base_of(*array), _ => e }
}
pub open spec fn depth<'a>(e: &'a Expr<'a>) -> nat decreases e {
    match e { Expr::Index { array, .. } => 1 + depth(*array), _ => 0 }
}
// `Vec<(ExprRef, Span), &Arena>` of (index expression, span) pairs
pub struct Indices<'a> { pub v: Vec<(&'a Expr<'a>, SpanH)> }
impl<'a> Indices<'a> {
    pub fn new_in() -> (r: Indices<'a>) ensures r.v@.len() == 0 { Indices { v: Vec::new() } }
    pub fn push(&mut self, x: (&'a Expr<'a>, SpanH)) ensures final(self).v@ == old(self).v@.push(x) { self.v.push(x) }
    #[verifier::external_body]
    pub fn reverse(&mut self) ensures final(self).v@ == old(self).v@.reverse() { unimplemented!() }
}
'''

UNIT = VUnit(
    name="index_target",
    props=["C05", "C04"],
    source="src/runtime.rs",
    preamble=PRE,
    trusted=["the Expr enum is copied from src/syntax/parser.rs with leaf payload types replaced by opaque handles (sub-expression references are kept as references)",
             "partial correctness (the walk descends a finite tree)"],
    items=[
        Enum("BinaryOp", source="src/syntax/parser.rs"),
        Enum("UnaryOp", source="src/syntax/parser.rs"),
        Enum("Expr", source="src/syntax/parser.rs", derive="", generics="<'ast>", rewrites=[
            Rw("R12", r"ExprRef<'ast>", "&'ast Expr<'ast>"), Rw("R12", r"\bSpan\b", "SpanH"), Rw("R12", r"&'ast str", "StrH"),
            Rw("R12", r"StringParts<'ast>", "PartsH"), Rw("R12", r"ArgListRef<'ast>", "ArgsH"), Rw("R12", r"&'ast \[&'ast Expr<'ast>\]", "ElemsH")]),
        Raw(MODEL),
        # `a[i][j] get v`, `a[i].push(v)`: the variable that is mutated is the one the chain is ROOTED in -- the returned base expression is that
        # Var node itself (its resolved binding is looked up through it), the name is its name, and there is one index per level
        Fn("flatten_index_target", impl="impl Runtime",
           # the cursor variable and whether the parameter itself is the cursor are the code's own choice (captured, not fixed here)
           captures={"in": (r"fn flatten_index_target\(&self, (mut )?target", "target_in", "target"),
                     "shadow": (r"fn flatten_index_target\(&self, (mut )?target", "let mut target = target_in;", ""),
                     "cur": r"match (\w+) \{"},
           sig="fn flatten_index_target<'a>(${in}: &'a Expr<'a>) -> (res: Option<(&'a Expr<'a>, StrH, Indices<'a>)>)",
           expect_sig=r"fn flatten_index_target\(&self, (?:mut )?target: ExprRef<'a>\) -> Option<IndexTarget<'a>>",
           ensures=["res is Some <==> base_of(${in}) is Var",
                    "res is Some ==> res->Some_0.0 == base_of(${in}) && res->Some_0.2.v@.len() == depth(${in})",
                    "res is Some ==> (base_of(${in}) matches Expr::Var(n, _) && res->Some_0.1 == n)"],
           loops={1: {"invariant": ["base_of(${cur}) == base_of(${in})", "indices.v@.len() + depth(${cur}) == depth(${in})"]}},
           rewrites=[Rw("R8", r"Vec::new_in\(self\.frame\)", "Indices::new_in()", min_matches=1)],
           # a `mut` parameter used as the cursor becomes an immutable parameter plus a shadowing local (what `mut target: T` means)
           inserts=[(r"let mut indices = ", 1, "        ${shadow}")],
           attrs="#[verifier::exec_allows_no_decreases_clause]\n",
           vacuity="-", real_name="Runtime::flatten_index_target"),
    ],
)
