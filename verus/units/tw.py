import sys, pathlib
sys.path.insert(0, str(pathlib.Path(__file__).resolve().parent.parent))
from common import MEMCHR, SLICE_EQ, MATCH_SPEC
from vlib.vextract import VUnit, Fn, Const, Raw, Rw

UNIT = VUnit(
    name="tw",
    props=["C13", "C06"],
    source="src/builtins/tw.rs",
    preamble=MATCH_SPEC + MEMCHR + SLICE_EQ,
    trusted=["memchr_rs::memchr behaves as documented (external_body contract `memchr`)",
             "`&a[i..j] == b` is byte-wise equality of the sub-slice (shim slice_eq, rewrite R5)",
             "`haystack.as_bytes()` is the identity view of a &str (rewrite R4: parameters retyped to &[u8])"],
    items=[
        Const("SIMD_THRESHOLD"),
        Fn("maximal_suffix",
           expect_sig=r"fn maximal_suffix\(x: &\[u8\], rev: bool\) -> \(usize, usize\)",
           sig="fn maximal_suffix(x: &[u8], rev: bool) -> (r: (usize, usize))",
           requires=["x.len() >= 2", "x.len() <= isize::MAX as usize"],
           ensures=["r.0 < x.len() - 1", "r.1 >= 1"],
           loops={1: dict(invariant=["n == x.len()", "i < j", "j + k <= n", "1 <= k <= p", "p <= j - i", "n <= isize::MAX as usize"],
                          decreases="2 * n - (i + j + k)")},
           rewrites=[Rw("R10", r"=\s*\(0,\s*1,\s*1,\s*1\);", "= (0usize, 1usize, 1usize, 1usize);")],
           vacuity="x: &[u8], rev: bool",
           real_name="builtins::tw::maximal_suffix"),
        Fn("crit_period",
           expect_sig=r"fn crit_period\(x: &\[u8\]\) -> \(usize, usize\)",
           sig="fn crit_period(x: &[u8]) -> (r: (usize, usize))",
           requires=["x.len() >= 2", "x.len() <= isize::MAX as usize"],
           ensures=["r.0 < x.len() - 1"],
           vacuity="x: &[u8]",
           real_name="builtins::tw::crit_period"),
        Fn("find",
           expect_sig=r"fn find\(haystack: &str, needle: &str\) -> Option<usize>",
           sig="pub fn find(h: &[u8], n: &[u8]) -> (r: Option<usize>)",
           # slices and strs never exceed isize::MAX bytes (Rust allocation invariant)
           requires=["h.len() <= isize::MAX as usize", "n.len() <= isize::MAX as usize"],
           ensures=["first_occ(h@, n@, r)"],
           loops={
               1: dict(invariant=["hlen == h.len()", "nlen == n.len()", "nlen == 2", "first == n@[0]", "hlen <= isize::MAX as usize",
                                  "forall|t: int| 0 <= t < offset ==> !matches_at(h@, n@, t)"],
                       decreases="hlen - offset"),
               2: dict(invariant=["hlen == h.len()", "nlen == n.len()", "nlen >= 1", "first == n@[0]", "hlen <= isize::MAX as usize",
                                  "nlen <= isize::MAX as usize", "forall|t: int| 0 <= t < offset ==> !matches_at(h@, n@, t)"],
                       decreases="hlen - offset"),
               3: dict(invariant=["hlen == h.len()", "nlen == n.len()", "crit < nlen", "anchor == n@[crit as int]", "hlen <= isize::MAX as usize",
                                  "nlen <= isize::MAX as usize", "forall|t: int| 0 <= t && t + crit < offset ==> !matches_at(h@, n@, t)"],
                       decreases="hlen - offset"),
           },
           rewrites=[
               Rw("R4", r"let \(h, n\) = \(haystack\.as_bytes\(\), needle\.as_bytes\(\)\);", ""),
               Rw("R5", r"&h\[(\w+)\.\.([^\]]+)\]\s*==\s*n\b", r"slice_eq(h, \1, \2, n)", min_matches=3),
           ],
           vacuity="h: &[u8], n: &[u8]",
           real_name="builtins::tw::find"),
    ],
)
