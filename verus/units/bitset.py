import sys, pathlib
sys.path.insert(0, str(pathlib.Path(__file__).resolve().parent.parent))
from vlib.vextract import VUnit, Fn, Const, Raw, Rw

PRE = r'''
pub struct LocalId(pub u32);

// bit i of word w
pub open spec fn bit(w: u64, i: u64) -> bool { (w >> i) & 1u64 == 1u64 }

// the abstract view of a liveness bit set: local L (numbered from `start`) is a member
pub open spec fn member(bits: Seq<u64>, local: u32, start: u32) -> bool
    recommends local >= start, ((local - start) / 64) < bits.len(),
{
    bit(bits[((local - start) / 64) as int], ((local - start) % 64) as u64)
}

// type invariant of the callers (established by ProgramFacts::local_range, see DESIGN.md D5): the local belongs to the range the
// bit set was sized for
pub open spec fn in_range(bits: Seq<u64>, local: u32, start: u32) -> bool {
    local >= start && ((local - start) / 64) < bits.len()
}

// std: u32::div_ceil (documented: the quotient rounded towards positive infinity)
pub assume_specification [u32::div_ceil] (a: u32, b: u32) -> (r: u32)
    requires b != 0,
    ensures r as int == (a as int + b as int - 1) / (b as int);

proof fn lemma_set(w: u64, b: u64)
    requires b < 64,
    ensures bit(w | (1u64 << b), b), forall|j: u64| j < 64 && j != b ==> bit(w | (1u64 << b), j) == bit(w, j),
{
    assert(((w | (1u64 << b)) >> b) & 1u64 == 1u64) by (bit_vector) requires b < 64;
    assert forall|j: u64| j < 64 && j != b implies bit(w | (1u64 << b), j) == bit(w, j) by {
        assert((((w | (1u64 << b)) >> j) & 1u64) == ((w >> j) & 1u64)) by (bit_vector) requires b < 64, j < 64, j != b;
    }
}
proof fn lemma_clear(w: u64, b: u64)
    requires b < 64,
    ensures !bit(w & !(1u64 << b), b), forall|j: u64| j < 64 && j != b ==> bit(w & !(1u64 << b), j) == bit(w, j),
{
    assert(((w & !(1u64 << b)) >> b) & 1u64 == 0u64) by (bit_vector) requires b < 64;
    assert forall|j: u64| j < 64 && j != b implies bit(w & !(1u64 << b), j) == bit(w, j) by {
        assert((((w & !(1u64 << b)) >> j) & 1u64) == ((w >> j) & 1u64)) by (bit_vector) requires b < 64, j < 64, j != b;
    }
}
proof fn lemma_test(w: u64, b: u64)
    requires b < 64,
    ensures ((w & (1u64 << b)) != 0) == bit(w, b),
{
    assert(((w & (1u64 << b)) != 0) == (((w >> b) & 1u64) == 1u64)) by (bit_vector) requires b < 64;
}
'''

G = [Rw("R10", r"u64::BITS as usize", "64usize", min_matches=0),
     Rw("R10", r"1_u64", "1u64", min_matches=0)]
IDX = "let local_idx = (local.0 - local_start) as usize;"

UNIT = VUnit(
    name="bitset",
    props=["C03"],
    source="src/analysis/liveness.rs",
    preamble=PRE,
    global_rewrites=G,
    trusted=["BitSet = Vec<u64, &Arena> viewed as Vec<u64> (R8); `bits[i] |= x` written as `bits.set(i, bits[i] | x)` (R8, Verus has no IndexMut assignment)"],
    lemma_obligations=["lemma_set", "lemma_clear", "lemma_test"],
    items=[
        Fn("contains_local",
           expect_sig=r"fn contains_local\(bits: &\[u64\], local: LocalId, local_start: u32\) -> bool",
           sig="fn contains_local(bits: &[u64], local: LocalId, local_start: u32) -> (r: bool)",
           requires=["in_range(bits@, local.0, local_start)"],
           ensures=["r == member(bits@, local.0, local_start)"],
           inserts=[(r"\(bits\[word_idx\] & ", 1, "proof { lemma_test(bits@[word_idx as int], bit_idx as u64); }")],
           vacuity="bits: &[u64], local: LocalId, local_start: u32", real_name="liveness::contains_local"),
        Fn("set_local",
           expect_sig=r"fn set_local\(bits: &mut BitSet<'_>, local: LocalId, local_start: u32\)",
           sig="fn set_local(bits: &mut Vec<u64>, local: LocalId, local_start: u32)",
           requires=["in_range(old(bits)@, local.0, local_start)"],
           ensures=["final(bits)@.len() == old(bits)@.len()",
                    "member(final(bits)@, local.0, local_start)",
                    # frame over the WHOLE view: every other local keeps its membership
                    "forall|l: u32| in_range(old(bits)@, l, local_start) && l != local.0 ==> member(final(bits)@, l, local_start) == member(old(bits)@, l, local_start)"],
           rewrites=[Rw("R8", r"bits\[word_idx\] \|= 1u64 << bit_idx;", "let w = bits[word_idx]; bits.set(word_idx, w | (1u64 << bit_idx));")],
           inserts=[(r"let w = bits\[word_idx\];", 1, "proof { lemma_set(bits@[word_idx as int], bit_idx as u64); }")],
           vacuity="bits: Vec<u64>, local: LocalId, local_start: u32", vacuity_subst=[("old(bits)", "bits")], real_name="liveness::set_local"),
        Fn("clear_local",
           expect_sig=r"fn clear_local\(bits: &mut BitSet<'_>, local: LocalId, local_start: u32\)",
           sig="fn clear_local(bits: &mut Vec<u64>, local: LocalId, local_start: u32)",
           requires=["in_range(old(bits)@, local.0, local_start)"],
           ensures=["final(bits)@.len() == old(bits)@.len()",
                    "!member(final(bits)@, local.0, local_start)",
                    "forall|l: u32| in_range(old(bits)@, l, local_start) && l != local.0 ==> member(final(bits)@, l, local_start) == member(old(bits)@, l, local_start)"],
           rewrites=[Rw("R8", r"bits\[word_idx\] &= !\(1u64 << bit_idx\);", "let w = bits[word_idx]; bits.set(word_idx, w & !(1u64 << bit_idx));")],
           inserts=[(r"let w = bits\[word_idx\];", 1, "proof { lemma_clear(bits@[word_idx as int], bit_idx as u64); }")],
           vacuity="bits: Vec<u64>, local: LocalId, local_start: u32", vacuity_subst=[("old(bits)", "bits")], real_name="liveness::clear_local"),
        Fn("word_count",
           expect_sig=r"const fn word_count\(local_count: u32\) -> usize",
           sig="fn word_count(local_count: u32) -> (r: usize)",
           ensures=["r * 64 >= local_count", "local_count > 0 ==> (r - 1) * 64 < local_count", "local_count == 0 ==> r == 0"],
           rewrites=[Rw("R10", r"u64::BITS", "64u32")],
           vacuity="-", real_name="liveness::word_count"),
    ],
)
