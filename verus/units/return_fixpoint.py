import sys, pathlib
sys.path.insert(0, str(pathlib.Path(__file__).resolve().parent.parent))
from vlib.vextract import VUnit, Fn, Const, Raw, Rw, Enum, Block, Struct

PRE = r'''
pub struct BodyH { pub id: Ghost<int> }
pub struct Pending { pub n: Ghost<nat> }
impl Pending {
    #[verifier::external_body]
    pub fn len(&self) -> (r: usize) ensures r == self.n@ { unimplemented!() }
}
'''

MODEL = r'''
// the signatures of the functions declared in the current block: return_type[k] for the k-th
pub struct G { pub rt: Ghost<Seq<ValueType>> }
impl G {
    // what infer_function_return_type gives for a body under the CURRENT signatures
    pub uninterp spec fn inferred(&self, body: int) -> ValueType;
    // R11: one full pass over the pending definitions (the inner `for pending_def in &pending` loop); reports whether a signature changed
    #[verifier::external_body]
    pub fn refine_pass(&mut self, pending: &Pending) -> (changed: bool) ensures !changed ==> final(self).rt@ == old(self).rt@ { unimplemented!() }
    #[verifier::external_body]
    pub fn infer_function_return_type(&self, body: &BodyH) -> (r: ValueType) ensures r == self.inferred(body.id@) { unimplemented!() }
    #[verifier::external_body]
    pub fn return_type_at(&self, k: usize) -> (r: ValueType) requires k < self.rt@.len() ensures r == self.rt@[k as int] { unimplemented!() }
    #[verifier::external_body]
    pub fn set_return_type_at(&mut self, k: usize, t: ValueType) requires k < old(self).rt@.len() ensures final(self).rt@ == old(self).rt@.update(k as int, t) { unimplemented!() }
}
pub struct PendingDef { pub body: BodyH, pub scope_index: usize }
// --- one `return` statement seen by the return-type inference (which runs in the scope of the DEFINITION, before the body is checked)
pub struct ExprH { pub id: Ghost<int> }
pub struct Bound { pub g: Ghost<int> }                           // the names the function binds itself: parameters, `make` locals, nested functions
pub uninterp spec fn mentions(e: int, b: int) -> bool;           // the expression names one of them
pub uninterp spec fn outer_type(e: int) -> Option<ValueType>;    // infer_expr_type in the definer's scope
#[verifier::external_body]
pub fn expr_mentions(e: &ExprH, b: &Bound) -> (r: bool) ensures r == mentions(e.id@, b.g@) { unimplemented!() }
pub struct Rz { pub g: Ghost<int> }
impl Rz {
    #[verifier::external_body]
    pub fn infer_expr_type(&self, e: &ExprH) -> (r: Option<ValueType>) ensures r == outer_type(e.id@) { unimplemented!() }
}
'''

UNIT = VUnit(
    name="return_fixpoint",
    props=["C07", "C09"],
    source="src/resolver.rs",
    preamble=PRE,
    trusted=["the inner pass is one opaque call in the termination obligation (R11); signatures are a ghost sequence of return types; infer_function_return_type is an uninterpreted function of the body under the current signatures"],
    items=[
        Enum("ValueType", source="src/helpers.rs", derive="#[derive(Clone, Copy)]", eq=True),
        Raw(MODEL),
        # the return-type refinement after hoisting terminates: it is bounded by the number of functions declared in the block (each round
        # either changes nothing and stops, or is one of at most pending.len() rounds)
        Block("refine_return_types", within="predeclare_block_functions", impl="impl Resolver", arm=True,
              anchor=r"pending\.push\(PendingFunctionDef \{ name, name_span, params, body, scope_index \}\);\s*\}",
              sig="fn refine_return_types(g: &mut G, pending: &Pending)",
              rewrites=[Rw("R11", r"let mut changed = false;\s*for pending_def in &pending \{.*?\n            \}\n", "let changed = g.refine_pass(pending);\n", min_matches=1)],
              real_name="Resolver::predeclare_block_functions (return-type refinement loop: termination)"),
        # one definition refined: whatever its signature said before, afterwards it says what inference gives NOW (so a signature first
        # inferred from not-yet-typed callees is corrected in a later round), and `changed` reports a difference
        Block("refine_one", within="predeclare_block_functions", impl="impl Resolver",
              anchor=r"for pending_def in &pending ",
              sig="fn refine_one(g: &mut G, pending_def: &PendingDef, changed0: bool) -> (changed: bool)",
              prologue="    let mut changed = changed0;", epilogue="    changed",
              requires=["pending_def.scope_index < old(g).rt@.len()"],
              ensures=["final(g).rt@ =~= old(g).rt@.update(pending_def.scope_index as int, old(g).inferred(pending_def.body.id@))",
                       "changed == (changed0 || old(g).rt@[pending_def.scope_index as int] != old(g).inferred(pending_def.body.id@))"],
              rewrites=[Rw("R9", r"self\.infer_function_return_type\(\s*(?:pending_def\.params,\s*)?pending_def\.body\)", "g.infer_function_return_type(&pending_def.body)", min_matches=1),
                        Rw("R13", r"let current_scope = self\s*\.function_scopes\s*\.last_mut\(\)\s*\.expect\(\"function scope stack should never be empty\"\);", "", min_matches=1),
                        Rw("R13", r"let sig = &mut current_scope\[pending_def\.scope_index\];", "", min_matches=1),
                        Rw("R7", r"debug_assert(?:_eq)?!\([^;]*\);", "", min_matches=0),
                        Rw("R9", r"self\s*\.function_scopes\s*\.last\(\)\s*\.expect\(\"function scope stack should never be empty\"\)\s*\[pending_def\.scope_index\]\s*\.return_type", "g.return_type_at(pending_def.scope_index)", min_matches=0),
                        Rw("R9", r"sig\.return_type != return_type", "g.return_type_at(pending_def.scope_index) != return_type", min_matches=1),
                        Rw("R9", r"sig\.return_type = return_type;", "g.set_return_type_at(pending_def.scope_index, return_type);", min_matches=1),
                        Rw("R11b", r"continue;", "return changed;", min_matches=0)],
              real_name="Resolver::predeclare_block_functions (body of the refinement pass)"),
        # one `return`: exactly one type is recorded for it; a bare return is Null; an expression that mentions a name the function binds
        # itself is Dynamic WHATEVER a same-named outer declaration's type is (otherwise valid calls are rejected: C09), and so is one
        # the definer's scope cannot type
        Block("return_stmt_type", within="collect_return_types_from_stmt", impl="impl Resolver", arm=True,
              anchor=r"Stmt::Return \{ expr, \.\. \} =>",
              sig="fn return_stmt_type(me: &Rz, expr: &Option<&ExprH>, bound: &Bound, return_types: &mut Vec<ValueType>)",
              ensures=["final(return_types)@.len() == old(return_types)@.len() + 1",
                       "final(return_types)@.drop_last() =~= old(return_types)@",
                       "*expr is None ==> final(return_types)@.last() is Null",
                       "*expr is Some && mentions((*expr)->Some_0.id@, bound.g@) ==> final(return_types)@.last() is Dynamic",
                       "*expr is Some && !mentions((*expr)->Some_0.id@, bound.g@) ==> final(return_types)@.last() == (if outer_type((*expr)->Some_0.id@) is Some { outer_type((*expr)->Some_0.id@)->Some_0 } else { ValueType::Dynamic })"],
              rewrites=[Rw("R9", r"Self::expr_mentions\(expr_ref, bound\)", "expr_mentions(expr_ref, bound)", min_matches=0),
                        Rw("R9", r"self\.infer_expr_type\(expr_ref\)", "me.infer_expr_type(expr_ref)", min_matches=1)],
              real_name="Resolver::collect_return_types_from_stmt (Stmt::Return arm)"),
    ],
)
