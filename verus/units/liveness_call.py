import sys, pathlib
sys.path.insert(0, str(pathlib.Path(__file__).resolve().parent.parent))
from vlib.vextract import VUnit, Fn, Const, Raw, Rw, Enum, Block, Struct

PRE = r'''
#[derive(Clone, Copy)] pub struct FunctionId(pub u32);
pub struct IdSet { pub s: Ghost<Set<int>> }
pub struct Bits { pub s: Ghost<Set<int>> }          // a liveness bit set, by the locals it contains
'''

MODEL = r'''
pub struct Summary { pub available: bool, pub transitive_capture_reads: IdSet, pub transitive_capture_writes: IdSet }
pub struct Summaries { pub g: Ghost<int> }
impl Summaries {
    pub uninterp spec fn of(&self, callee: FunctionId) -> Summary;
    #[verifier::external_body]
    pub fn get(&self, callee: FunctionId) -> (r: &Summary) ensures *r == self.of(callee) { unimplemented!() }
}
pub struct Facts { pub owned: Ghost<Set<int>>, pub all: Ghost<Set<int>> }      // the locals of the function being analysed
pub struct Op { pub reads: IdSet, pub writes: IdSet, pub callee_reads_owned: Ghost<Set<int>>, pub some_callee_unavailable: Ghost<bool> }
// R11: the loops of apply_op_transfer, each over one collection
#[verifier::external_body]
fn clear_all(live: &mut Bits, set: &IdSet) ensures final(live).s@ == old(live).s@.difference(set.s@) { unimplemented!() }
#[verifier::external_body]
fn set_all(live: &mut Bits, set: &IdSet) ensures final(live).s@ == old(live).s@.union(set.s@) { unimplemented!() }
// the callee loop: by the contract of call_transfer (reads become live, every local when a summary is missing, nothing is cleared)
#[verifier::external_body]
fn callees_transfer(live: &mut Bits, op: &Op, facts: &Facts)
    ensures !op.some_callee_unavailable@ ==> final(live).s@ == old(live).s@.union(op.callee_reads_owned@), op.some_callee_unavailable@ ==> final(live).s@ == facts.all@.union(old(live).s@)
{ unimplemented!() }
pub uninterp spec fn callee_writes_owned(op: &Op) -> Set<int>;
#[verifier::external_body]
fn callees_clear_writes(live: &mut Bits, op: &Op) ensures final(live).s@ == old(live).s@.difference(callee_writes_owned(op)) { unimplemented!() }
// set_all_locals(&mut uses, local_count)
#[verifier::external_body]
fn set_all_locals(uses: &mut Bits, facts: &Facts) ensures final(uses).s@ == facts.all@ { unimplemented!() }
// R11: `for &local in <set> { if owned { note_use(&mut uses, &defs, local, ..) } }`: every owned local of the set not yet defined in this
// block becomes upward-exposed
#[verifier::external_body]
fn note_uses_owned(uses: &mut Bits, defs: &Bits, facts: &Facts, set: &IdSet)
    ensures final(uses).s@ == old(uses).s@.union(set.s@.intersect(facts.owned@).difference(defs.s@)) { unimplemented!() }
#[verifier::external_body]
fn note_defs_owned(defs: &mut Bits, facts: &Facts, set: &IdSet)
    ensures final(defs).s@ == old(defs).s@.union(set.s@.intersect(facts.owned@)) { unimplemented!() }
'''

LOOP_R = r"for &local in &summary\.transitive_capture_reads \{\s*if facts\.locals\[local\.0 as usize\]\.owner == function \{\s*note_use\(&mut uses, &defs, local, local_start\);\s*\}\s*\}"
LOOP_W = r"for &local in &summary\.transitive_capture_writes \{\s*if facts\.locals\[local\.0 as usize\]\.owner == function \{\s*note_def\(&mut defs, local, local_start\);\s*\}\s*\}"

UNIT = VUnit(
    name="liveness_call",
    props=["C03"],
    source="src/analysis/liveness.rs",
    preamble=PRE,
    trusted=["bit sets are the sets of locals they contain; the noting loops are cut out as opaque calls (R11); note_use / note_def themselves are bit-set helpers verified in unit bitset"],
    items=[
        Raw(MODEL),
        # what a call contributes to a block's transfer facts: everything the callee may transitively READ through captures is a use (every
        # local when no summary is available), and NOTHING becomes defined -- a callee's captured writes are may-writes (it may assign on
        # some path only, or assign another activation's variable), so they must not make an earlier store dead (defects P1/P2, repaired)
        Block("call_transfer", within="compute_block_facts", impl=None,
              anchor=r"for &callee in &op\.direct_callees ",
              sig="fn call_transfer(callee: FunctionId, summaries: &Summaries, facts: &Facts, uses0: Bits, defs0: Bits) -> (out: (Bits, Bits))",
              prologue="    let mut uses = uses0;\n    let mut defs = defs0;", epilogue="    (uses, defs)",
              ensures=["out.1.s@ == defs0.s@",
                       "!summaries.of(callee).available ==> out.0.s@ == facts.all@",
                       "summaries.of(callee).available ==> summaries.of(callee).transitive_capture_reads.s@.intersect(facts.owned@).difference(defs0.s@).subset_of(out.0.s@) && uses0.s@.subset_of(out.0.s@)"],
              rewrites=[Rw("R9", r"&summaries\[callee\.0 as usize\]", "summaries.get(callee)", min_matches=1),
                        Rw("R9", r"set_all_locals\(&mut uses, local_count\);", "set_all_locals(&mut uses, facts);", min_matches=1),
                        Rw("R11", LOOP_R, "note_uses_owned(&mut uses, &defs, facts, &summary.transitive_capture_reads);", min_matches=0),
                        Rw("R11", LOOP_W, "note_defs_owned(&mut defs, facts, &summary.transitive_capture_writes);", min_matches=0),
                        Rw("R11b", r"continue;", "return (uses, defs);", min_matches=0)],
              real_name="liveness::compute_block_facts (what a call contributes to a block's uses/defs)"),
        # the backward transfer of one op: live_before = (live_after - the op's own writes) U its reads U what its callees may read; a callee's
        # captured writes clear nothing
        Fn("apply_op_transfer",
           sig="fn apply_op_transfer(live: &mut Bits, op: &Op, facts: &Facts)",
           expect_sig=r"fn apply_op_transfer\(\s*live: &mut BitSet<'_>,\s*op: &LinearOp<'_>,\s*function: FunctionId,\s*facts: &ProgramFacts<'_, '_>,\s*summaries: &SummarySlice<'_>,\s*local_start: u32,\s*local_count: u32,?\s*\)",
           ensures=["!op.some_callee_unavailable@ ==> final(live).s@ =~= old(live).s@.difference(op.writes.s@).union(op.reads.s@).union(op.callee_reads_owned@)",
                    "op.some_callee_unavailable@ ==> facts.all@.subset_of(final(live).s@)"],
           rewrites=[Rw("R11", r"for &local in &op\.writes \{\s*clear_local\(live, local, local_start\);\s*\}", "clear_all(live, &op.writes);", min_matches=1),
                     Rw("R11", r"for &local in &op\.reads \{\s*set_local\(live, local, local_start\);\s*\}", "set_all(live, &op.reads);", min_matches=1),
                     # the callee loop that makes captured reads live (matched by its exact content) ...
                     Rw("R11", r"for &callee in &op\.direct_callees \{\s*let summary = &summaries\[callee\.0 as usize\];\s*if !summary\.available \{\s*set_all_locals\(live, local_count\);\s*continue;\s*\}\s*for &local in &summary\.transitive_capture_reads \{\s*if facts\.locals\[local\.0 as usize\]\.owner == function \{\s*set_local\(live, local, local_start\);\s*\}\s*\}\s*\}", "callees_transfer(live, op, facts);", min_matches=1),
                     # ... and, should it (re)appear, a callee loop that CLEARS what callees write: kept visible as a call that clears
                     Rw("R11", r"for &callee in &op\.direct_callees \{\s*for &local in &summaries\[callee\.0 as usize\]\.transitive_capture_writes \{\s*if facts\.locals\[local\.0 as usize\]\.owner == function \{\s*clear_local\(live, local, local_start\);\s*\}\s*\}\s*\}", "callees_clear_writes(live, op);", min_matches=0)],
           vacuity="-", real_name="liveness::apply_op_transfer"),
    ],
)
