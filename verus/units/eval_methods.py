import sys, pathlib
sys.path.insert(0, str(pathlib.Path(__file__).resolve().parent.parent))
from vlib.vextract import VUnit, Fn, Const, Raw, Rw, Enum, Block
from verus.units.eval_ops import BAL, PAY

PRE = r'''
pub struct StrV { pub g: Ghost<int> }
pub struct ArrV { pub g: Ghost<int> }
pub struct HostV { pub g: Ghost<int> }
#[derive(PartialEq, Eq, Clone, Copy)]
pub enum RtErr { DivisionByZero, TypeMismatch, InvalidIndex, IndexOutOfBounds, Other }
#[verifier::external_body]
fn unk<T>() -> (r: T) { unimplemented!() }
// a method name (`field: &str` in the real code); which builtin it names is an uninterpreted function of the name
pub struct Field { pub g: Ghost<int> }
'''

ARGS = r'''
pub enum Ty { Number, Str, Bool, Null, Array, Host }
pub open spec fn ty(v: Value) -> Ty {
    match v {
        Value::Number(_) => Ty::Number, Value::Str(_) => Ty::Str, Value::Bool(_) => Ty::Bool,
        Value::Null => Ty::Null, Value::Array(_) => Ty::Array, Value::Host(_) => Ty::Host,
    }
}
// The argument list of a call (`args: &ArgList`, a slice of argument expressions).  vals[k] is what evaluating the k-th argument
// yields (a value, or the runtime error it raises).  The shims' `requires` are exactly the slice-index bounds of the real code.
pub struct Args { pub vals: Ghost<Seq<Result<Value, RtErr>>> }
impl Args {
    pub open spec fn n(&self) -> nat { self.vals@.len() }
    pub open spec fn all_ok(&self) -> bool { forall|k: int| 0 <= k < self.n() ==> (#[trigger] self.vals@[k]) is Ok }
    pub open spec fn t(&self, k: int) -> Ty { ty(self.vals@[k]->Ok_0) }
    #[verifier::external_body]
    pub fn len(&self) -> (r: usize) ensures r == self.n() { unimplemented!() }
    // `self.eval_expr(args.args[k])`
    #[verifier::external_body]
    pub fn eval(&self, k: usize) -> (r: Result<Value, RtErr>) requires k < self.n() ensures r == self.vals@[k as int] { unimplemented!() }
    // `RuntimeError::new(kind, args.args[k].span())`
    #[verifier::external_body]
    pub fn err_at(&self, k: usize, kind: RtErr) -> (r: RtErr) requires k < self.n() ensures r == kind { unimplemented!() }
}
pub struct CmdV { pub g: Ghost<int> }
pub struct ResV { pub g: Ghost<int> }
impl HostV {
    #[verifier::external_body]
    pub fn get(&self) -> (r: &HostValue) { unimplemented!() }
}
impl Args {
    // `self.eval_required_string(args.args[k], span)`: the argument's error, or TypeMismatch unless it is a string
    #[verifier::external_body]
    pub fn eval_string(&self, k: usize) -> (r: Result<(), RtErr>) requires k < self.n()
        ensures r is Ok <==> (self.vals@[k as int] is Ok && self.t(k as int) == Ty::Str) { unimplemented!() }
    // `self.eval_timeout_ms(args.args[k], span)`
    #[verifier::external_body]
    pub fn eval_timeout(&self, k: usize) -> (r: Result<(), RtErr>) requires k < self.n()
        ensures r is Ok ==> (self.vals@[k as int] is Ok && self.t(k as int) == Ty::Number) { unimplemented!() }
}
// `self.get_mutable_array(receiver, span, field)` / `self.get_mutable_process_command(..)`: resolve the receiver lvalue; Err when
// it is not an array / command (they have no panicking arm for value types: see unit notes)
#[verifier::external_body]
fn get_mut_receiver() -> (r: Result<(), RtErr>) { unimplemented!() }
impl Args {
    // the argument loop of eval_builtin_call: `for arg_expr in args.args { arg_values.push(self.eval_expr(arg_expr)?); }`
    #[verifier::external_body]
    pub fn eval_all(&self) -> (r: Result<Vec<Value>, RtErr>)
        ensures r is Ok <==> self.all_ok(),
                r is Ok ==> r->Ok_0@.len() == self.n() && forall|k: int| 0 <= k < self.n() ==> r->Ok_0@[k] == (#[trigger] self.vals@[k])->Ok_0,
    { unimplemented!() }
}
// `mem::replace(&mut arg_values[0], Value::Null)`
#[verifier::external_body]
fn take_first(v: &mut Vec<Value>) -> (r: Value) requires old(v)@.len() > 0 ensures r == old(v)@[0], final(v)@.len() == old(v)@.len() { unimplemented!() }
#[verifier::external_body]
fn global_builtin_io(v: &Value) -> (r: Result<(), RtErr>) { unimplemented!() }   // type_of / read_line / to_string / shout on one evaluated argument
pub uninterp spec fn string_named(f: &Field) -> Option<StringBuiltin>;
pub uninterp spec fn number_named(f: &Field) -> Option<NumberBuiltin>;
pub uninterp spec fn cmd_named(f: &Field) -> Option<ProcessCommandBuiltin>;
pub uninterp spec fn result_named(f: &Field) -> Option<ProcessResultBuiltin>;
#[verifier::external_body]
fn number_from_name(f: &Field) -> (r: Option<NumberBuiltin>) ensures r == number_named(f) { unimplemented!() }
#[verifier::external_body]
fn cmd_from_name(f: &Field) -> (r: Option<ProcessCommandBuiltin>) ensures r == cmd_named(f) { unimplemented!() }
#[verifier::external_body]
fn result_from_name(f: &Field) -> (r: Option<ProcessResultBuiltin>) ensures r == result_named(f) { unimplemented!() }
// MemberBuiltin::from_name: first family (string, array, number, process_command, process_result) that knows the name
pub open spec fn member_named(f: &Field) -> Option<MemberBuiltin> {
    if string_named(f) is Some { Some(MemberBuiltin::String(string_named(f)->Some_0)) }
    else if array_named(f) is Some { Some(MemberBuiltin::Array(array_named(f)->Some_0)) }
    else if number_named(f) is Some { Some(MemberBuiltin::Number(number_named(f)->Some_0)) }
    else if cmd_named(f) is Some { Some(MemberBuiltin::ProcessCommand(cmd_named(f)->Some_0)) }
    else if result_named(f) is Some { Some(MemberBuiltin::ProcessResult(result_named(f)->Some_0)) }
    else { None }
}
#[verifier::external_body]
fn member_from_name(f: &Field) -> (r: Option<MemberBuiltin>) ensures r == member_named(f) { unimplemented!() }
pub open spec fn cmd_arity(b: ProcessCommandBuiltin) -> nat {
    match b {
        ProcessCommandBuiltin::Env => 2,
        ProcessCommandBuiltin::Arg | ProcessCommandBuiltin::Cwd | ProcessCommandBuiltin::StdinText | ProcessCommandBuiltin::TimeoutMs => 1,
        _ => 0,
    }
}
pub open spec fn cmd_mut(b: ProcessCommandBuiltin) -> bool { !(b is Run) }
// callees of eval_member_call that stay outside the unit, with the precondition their bodies need (R9)
#[verifier::external_body]
fn eval_number_member_call(f: &Field) -> (r: Value) requires number_named(f) is Some { unimplemented!() }   // has `.expect(valid number method)`
#[verifier::external_body]
fn eval_process_command_call(b: ProcessCommandBuiltin) -> (r: Result<Value, RtErr>) requires b is Run { unimplemented!() }   // `_ => unreachable!(only run is non-mutating)`
#[verifier::external_body]
fn eval_process_result_call(b: ProcessResultBuiltin) -> (r: Value) { unimplemented!() }

pub uninterp spec fn array_named(f: &Field) -> Option<ArrayBuiltin>;
#[verifier::external_body]
fn string_from_name(f: &Field) -> (r: Option<StringBuiltin>) ensures r == string_named(f) { unimplemented!() }
#[verifier::external_body]
fn array_from_name(f: &Field) -> (r: Option<ArrayBuiltin>) ensures r == array_named(f) { unimplemented!() }

// documented arities and argument types (docs/STRINGS.md, docs/ARRAYS.md)
pub open spec fn string_arity(b: StringBuiltin) -> nat {
    match b {
        StringBuiltin::Slice | StringBuiltin::Replace => 2,
        StringBuiltin::Find | StringBuiltin::Split => 1,
        _ => 0,
    }
}
pub open spec fn string_args_typed(b: StringBuiltin, a: &Args) -> bool {
    match b {
        StringBuiltin::Slice => a.t(0) == Ty::Number && a.t(1) == Ty::Number,
        StringBuiltin::Replace => a.t(0) == Ty::Str && a.t(1) == Ty::Str,
        StringBuiltin::Find | StringBuiltin::Split => a.t(0) == Ty::Str,
        _ => true,
    }
}
pub open spec fn string_result(b: StringBuiltin) -> Ty {
    match b {
        StringBuiltin::Len | StringBuiltin::Find | StringBuiltin::ToNumber => Ty::Number,
        StringBuiltin::Split => Ty::Array,
        _ => Ty::Str,
    }
}
pub open spec fn array_arity(b: ArrayBuiltin) -> nat { match b { ArrayBuiltin::Push | ArrayBuiltin::Join => 1, _ => 0 } }
pub open spec fn array_mut(b: ArrayBuiltin) -> bool { b is Push || b is Pop || b is Reverse }
'''

ARG_EVAL = Rw("R11b", r"self\.eval_expr\(args\.args\[(\d)\]\)", r"args.eval(\1)", min_matches=0)
ERR_AT = Rw("R6", r"Err\(RuntimeError::new\(\s*RuntimeErrorKind::(\w+),\s*args\.args\[(\d)\]\.span\(\),?\s*\)\)", r"Err(args.err_at(\2, RtErr::\1))", min_matches=0)
ERR = Rw("R6", r"Err\(RuntimeError::new\(\s*RuntimeErrorKind::(\w+),\s*(?:[^()]|\([^()]*\))*\)\)", r"Err(RtErr::\1)", min_matches=0)
DROP = Rw("R13", r"let (?:mut )?\w+ =\s*(?:StringBuiltin|ArrayBuiltin|Vec)::[^;]*;|StringBuiltin::split\([^;]*;", "", min_matches=0)

UNIT = VUnit(
    name="eval_methods",
    props=["C06"],
    source="src/runtime.rs",
    preamble=PRE,
    trusted=["argument evaluation is the shim Args::eval(k) whose `requires k < n` is the bounds condition of `args.args[k]` (R11b); a method name -> builtin lookup is an uninterpreted function of the name",
             "the builtin bodies (StringBuiltin::slice/find/replace/split/.., ArrayBuiltin::join) are cut out of the arms (R12/R13): they are units tw/replace (Verus) and strings.rs (Kani)",
             "RuntimeError::new(kind, span) is reduced to its kind (R6)"],
    # the dispatch functions rely on what eval_member_call established (method known for the receiver type, arity checked): nobody else calls them
    callers_closed=[(f, "src/runtime.rs", ["eval_member_call"]) for f in
                    ("eval_string_member_call", "eval_array_member_call", "eval_array_member_call_mut", "eval_process_command_call_mut",
                     "eval_process_command_call", "eval_number_member_call")]
                   + [("eval_member_call", "src/runtime.rs", ["eval_function_call"]), ("eval_builtin_call", "src/runtime.rs", ["eval_function_call"])],
    items=[
        Enum("StringBuiltin", source="src/builtins/string.rs"),
        Enum("ArrayBuiltin", source="src/builtins/array.rs"),
        Enum("NumberBuiltin", source="src/builtins/number.rs"),
        Enum("ProcessCommandBuiltin", source="src/builtins/process.rs"),
        Enum("ProcessResultBuiltin", source="src/builtins/process.rs"),
        Enum("MemberBuiltin", source="src/builtins/mod.rs"),
        Enum("HostValue", source="src/process.rs", derive="", rewrites=[Rw("R12", r"ProcessCommand<'a>", "CmdV"), Rw("R12", r"ProcessResult<'a>", "ResV")]),
        Enum("Value", derive="", rewrites=[
            Rw("R12", r"ArenaCow<'a>", "StrV"), Rw("R12", r"Vec<Value<'a>, &'a Arena>", "ArrV"), Rw("R12", r"HostHandle<'a>", "HostV"),
        ]),
        Raw(ARGS),
        # the real `Builtin::arity` / `requires_mut_receiver` of each builtin family against the documented tables
        Raw("impl StringBuiltin {"),
        Fn("arity", label="string_arity", source="src/builtins/string.rs", impl="impl Builtin for StringBuiltin",
           sig="pub fn arity(&self) -> (r: usize)", expect_sig=r"fn arity\(&self\) -> usize",
           ensures=["r == string_arity(*self)"], vacuity="-", real_name="<StringBuiltin as Builtin>::arity"),
        Raw("}\nimpl ArrayBuiltin {"),
        Fn("arity", label="array_arity", source="src/builtins/array.rs", impl="impl Builtin for ArrayBuiltin",
           sig="pub fn arity(&self) -> (r: usize)", expect_sig=r"fn arity\(&self\) -> usize",
           ensures=["r == array_arity(*self)"], vacuity="-", real_name="<ArrayBuiltin as Builtin>::arity"),
        Fn("requires_mut_receiver", label="array_requires_mut_receiver", source="src/builtins/array.rs", impl="impl Builtin for ArrayBuiltin",
           sig="pub fn requires_mut_receiver(&self) -> (r: bool)", expect_sig=r"fn requires_mut_receiver\(&self\) -> bool",
           ensures=["r == array_mut(*self)"], vacuity="-", real_name="<ArrayBuiltin as Builtin>::requires_mut_receiver"),
        Raw("}\nimpl NumberBuiltin {"),
        Fn("arity", label="number_arity", source="src/builtins/number.rs", impl="impl Builtin for NumberBuiltin",
           sig="pub fn arity(&self) -> (r: usize)", expect_sig=r"fn arity\(&self\) -> usize",
           ensures=["r == 0"], vacuity="-", real_name="<NumberBuiltin as Builtin>::arity"),
        Raw("}\nimpl ProcessCommandBuiltin {"),
        Fn("arity", label="command_arity", source="src/builtins/process.rs", impl="impl Builtin for ProcessCommandBuiltin",
           sig="pub fn arity(&self) -> (r: usize)", expect_sig=r"fn arity\(&self\) -> usize",
           ensures=["r == cmd_arity(*self)"], vacuity="-", real_name="<ProcessCommandBuiltin as Builtin>::arity"),
        Fn("requires_mut_receiver", label="command_requires_mut_receiver", source="src/builtins/process.rs", impl="impl Builtin for ProcessCommandBuiltin",
           sig="pub fn requires_mut_receiver(&self) -> (r: bool)", expect_sig=r"fn requires_mut_receiver\(&self\) -> bool",
           ensures=["r == cmd_mut(*self)"], vacuity="-", real_name="<ProcessCommandBuiltin as Builtin>::requires_mut_receiver"),
        Raw("}\nimpl ProcessResultBuiltin {"),
        Fn("arity", label="result_arity", source="src/builtins/process.rs", impl="impl Builtin for ProcessResultBuiltin",
           sig="pub fn arity(&self) -> (r: usize)", expect_sig=r"fn arity\(&self\) -> usize",
           ensures=["r == 0"], vacuity="-", real_name="<ProcessResultBuiltin as Builtin>::arity"),
        Raw("}\nimpl MemberBuiltin {"),
        Fn("arity", label="member_arity", source="src/builtins/mod.rs", impl="impl Builtin for MemberBuiltin",
           sig="pub fn arity(&self) -> (r: usize)", expect_sig=r"fn arity\(&self\) -> usize",
           ensures=["r == (match *self { MemberBuiltin::String(b) => string_arity(b), MemberBuiltin::Array(b) => array_arity(b), MemberBuiltin::Number(_) => 0, MemberBuiltin::ProcessCommand(b) => cmd_arity(b), MemberBuiltin::ProcessResult(_) => 0 })"],
           vacuity="-", real_name="<MemberBuiltin as Builtin>::arity"),
        Raw("}"),
        Fn("check_method_arity", impl="impl Runtime",
           sig="fn check_method_arity(arity: usize, args: &Args) -> (res: Result<(), RtErr>)",
           expect_sig=r"fn check_method_arity\(\s*builtin: &impl Builtin,\s*args: &ArgList<'a>,\s*span: Span,?\s*\) -> Result<\(\), RuntimeError>",
           ensures=["res is Ok <==> args.n() == arity", "res is Err ==> res->Err_0 == RtErr::TypeMismatch"],
           rewrites=[Rw("R2", r"builtin\.arity\(\)", "arity"), Rw("R11b", r"args\.args\.len\(\)", "args.len()"), ERR], vacuity="-",
           real_name="Runtime::check_method_arity"),
        Fn("eval_string_member_call", impl="impl Runtime",
           sig="fn eval_string_member_call(field: &Field, args: &Args) -> (res: Result<Value, RtErr>)",
           expect_sig=r"fn eval_string_member_call\(\s*&mut self,\s*s: &ArenaCow<'a>,\s*field: &'a str,\s*args: &'a ArgList<'a>,?\s*\) -> Result<Value<'a>, RuntimeError>",
           requires=["string_named(field) is Some", "args.n() == string_arity(string_named(field)->Some_0)"],
           ensures=["!args.all_ok() ==> res is Err",
                    "args.all_ok() ==> (res is Ok <==> string_args_typed(string_named(field)->Some_0, args))",
                    "args.all_ok() && res is Err ==> res->Err_0 == RtErr::TypeMismatch",
                    "res is Ok ==> ty(res->Ok_0) == string_result(string_named(field)->Some_0)"],
           rewrites=[Rw("R9", r"StringBuiltin::from_name\(field\)", "string_from_name(field)"), ARG_EVAL, ERR_AT, DROP, PAY],
           vacuity="field: &Field, args: &Args",
           real_name="Runtime::eval_string_member_call"),
        Fn("eval_array_member_call", impl="impl Runtime",
           sig="fn eval_array_member_call(field: &Field, args: &Args) -> (res: Result<Value, RtErr>)",
           expect_sig=r"fn eval_array_member_call\(\s*&mut self,\s*array: &Vec<Value<'a>, &'a Arena>,\s*field: &'a str,\s*args: &'a ArgList<'a>,?\s*\) -> Result<Value<'a>, RuntimeError>",
           # eval_member_call routes push/pop/reverse to eval_array_member_call_mut before it gets here
           requires=["array_named(field) is Some", "!array_mut(array_named(field)->Some_0)", "args.n() == array_arity(array_named(field)->Some_0)"],
           ensures=["!args.all_ok() ==> res is Err",
                    "args.all_ok() ==> (res is Ok <==> (array_named(field)->Some_0 is Join ==> args.t(0) == Ty::Str))",
                    "args.all_ok() && res is Err ==> res->Err_0 == RtErr::TypeMismatch"],
           rewrites=[Rw("R9", r"ArrayBuiltin::from_name\(field\)", "array_from_name(field)"), ARG_EVAL, ERR_AT, DROP, PAY],
           vacuity="field: &Field, args: &Args",
           real_name="Runtime::eval_array_member_call"),
        Fn("eval_array_member_call_mut", impl="impl Runtime",
           sig="fn eval_array_member_call_mut(builtin: ArrayBuiltin, args: &Args) -> (res: Result<Value, RtErr>)",
           expect_sig=r"fn eval_array_member_call_mut\(\s*&mut self,\s*receiver: ExprRef<'a>,\s*builtin: ArrayBuiltin,\s*field: &'a str,\s*args: &'a ArgList<'a>,\s*span: Span,?\s*\) -> Result<Value<'a>, RuntimeError>",
           requires=["array_mut(builtin)", "args.n() == array_arity(builtin)"],
           ensures=["!args.all_ok() ==> res is Err"],
           rewrites=[ARG_EVAL,
                     Rw("R13", r"let value = if self\.has_frame_arena\(\) \{.*?\};", "", min_matches=1),
                     Rw("R9", r"let array = self\.get_mutable_array\(receiver, span, field\)\?;", "get_mut_receiver()?;", min_matches=3),
                     Rw("R13", r"ArrayBuiltin::(?:push|reverse)\(array[^;]*;", "", min_matches=2),
                     Rw("R12", r"Ok\(ArrayBuiltin::pop\(array\)\.unwrap_or\(Value::Null\)\)", "Ok(unk())", min_matches=1)],
           vacuity="builtin: ArrayBuiltin, args: &Args",
           real_name="Runtime::eval_array_member_call_mut"),
        Fn("eval_process_command_call_mut", impl="impl Runtime",
           sig="fn eval_process_command_call_mut(builtin: ProcessCommandBuiltin, args: &Args) -> (res: Result<Value, RtErr>)",
           expect_sig=r"fn eval_process_command_call_mut\(\s*&mut self,\s*receiver: ExprRef<'a>,\s*builtin: ProcessCommandBuiltin,\s*field: &'a str,\s*args: &'a ArgList<'a>,\s*span: Span,?\s*\) -> Result<Value<'a>, RuntimeError>",
           requires=["cmd_mut(builtin)", "args.n() == cmd_arity(builtin)"],
           ensures=["!args.all_ok() ==> res is Err"],
           rewrites=[ARG_EVAL,
                     Rw("R9", r"let \w+ = self\.eval_required_string\(args\.args\[(\d)\], span\)\?;", r"args.eval_string(\1)?;", min_matches=2),
                     Rw("R9", r"let \w+ = self\.eval_timeout_ms\(args\.args\[(\d)\], span\)\?;", r"args.eval_timeout(\1)?;", min_matches=1),
                     Rw("R13", r"let \w+ = GlobalBuiltin::to_string\(self\.arena, &value\);", "", min_matches=3),
                     Rw("R9", r"let command = self\.get_mutable_process_command\(receiver, span, field\)\?;", "get_mut_receiver()?;", min_matches=13),
                     Rw("R13", r"command\.\w+\([^;]*\);", "", min_matches=13)],
           vacuity="builtin: ProcessCommandBuiltin, args: &Args",
           real_name="Runtime::eval_process_command_call_mut"),
        # the member-call dispatcher: every path reaches a callee with that callee's precondition established
        Fn("eval_member_call", impl="impl Runtime",
           sig="fn eval_member_call(receiver: Value, field: &Field, args: &Args) -> (res: Result<Value, RtErr>)",
           expect_sig=r"fn eval_member_call\(\s*&mut self,\s*object: ExprRef<'a>,\s*field: &'a str,\s*args: &'a ArgList<'a>,\s*span: Span,?\s*\) -> Result<Value<'a>, RuntimeError>",
           ensures=[# a receiver with no such method, or called with the wrong number of arguments, is a reported type mismatch
                    "!(array_named(field) is Some && array_mut(array_named(field)->Some_0)) && !(cmd_named(field) is Some && cmd_mut(cmd_named(field)->Some_0)) ==> ("
                    "((ty(receiver) == Ty::Bool || ty(receiver) == Ty::Null) ==> res == Err::<Value, RtErr>(RtErr::TypeMismatch))"
                    " && (ty(receiver) == Ty::Str && string_named(field) is None ==> res == Err::<Value, RtErr>(RtErr::TypeMismatch))"
                    " && (ty(receiver) == Ty::Str && string_named(field) is Some && args.n() != string_arity(string_named(field)->Some_0) ==> res == Err::<Value, RtErr>(RtErr::TypeMismatch))"
                    " && (ty(receiver) == Ty::Array && array_named(field) is Some && args.n() != array_arity(array_named(field)->Some_0) ==> res == Err::<Value, RtErr>(RtErr::TypeMismatch))"
                    " && (ty(receiver) == Ty::Number && (number_named(field) is None || args.n() != 0) ==> res == Err::<Value, RtErr>(RtErr::TypeMismatch)))"],
           rewrites=[Rw("R11b", r"let receiver = self\.eval_expr\(object\)\?;", "", min_matches=1),
                     # every `<Family>Builtin::from_name(field)` lookup -> its stub (uninterpreted function of the name); how many of each
                     # the dispatcher performs is its own business, what is checked is what it does with the answers
                     Rw("R9", r"ArrayBuiltin::from_name\(field\)", "array_from_name(field)", min_matches=0),
                     Rw("R9", r"StringBuiltin::from_name\(field\)", "string_from_name(field)", min_matches=0),
                     Rw("R9", r"NumberBuiltin::from_name\(field\)", "number_from_name(field)", min_matches=0),
                     Rw("R9", r"ProcessCommandBuiltin::from_name\(field\)", "cmd_from_name(field)", min_matches=0),
                     Rw("R9", r"ProcessResultBuiltin::from_name\(field\)", "result_from_name(field)", min_matches=0),
                     Rw("R9", r"MemberBuiltin::from_name\(field\)", "member_from_name(field)", min_matches=0),
                     Rw("R9", r"Self::check_method_arity\(&(\w+), args, span\)", r"check_method_arity(\1.arity(), args)", min_matches=1),
                     Rw("R9", r"self\.eval_array_member_call_mut\(object, array_builtin, field, args, span\)", "eval_array_member_call_mut(array_builtin, args)", min_matches=1),
                     Rw("R9", r"self\.eval_process_command_call_mut\(object, command_builtin, field, args, span\)", "eval_process_command_call_mut(command_builtin, args)", min_matches=1),
                     Rw("R9", r"self\.eval_string_member_call\(s, field, args\)", "eval_string_member_call(field, args)", min_matches=1),
                     Rw("R9", r"Self::eval_number_member_call\(n, field\)", "eval_number_member_call(field)", min_matches=1),
                     Rw("R9", r"self\.eval_array_member_call\(arr, field, args\)", "eval_array_member_call(field, args)", min_matches=1),
                     Rw("R9", r"self\.eval_process_command_call\(command, command_builtin, args, span\)", "eval_process_command_call(command_builtin)", min_matches=1),
                     Rw("R9", r"self\.eval_process_result_call\(result, result_builtin\)", "eval_process_result_call(result_builtin)", min_matches=1),
                     # Verus has no let-chains: `if let P = E && C { B }` (no else) -> `if let P = E { if C { B } }`
                     Rw("R10", r"if let (Some\(\w+\)) = (\w+\(field\))\s*&& ([^{]+?)\s*\{(.*?)\n        \}", r"if let \1 = \2 { if \3 {\4\n        } }", min_matches=2),
                     Rw("R6", r"Err\(RuntimeError::new_with_extras\(\s*RuntimeErrorKind::(\w+),\s*span,\s*field,\s*GlobalBuiltin::type_of\(&receiver\),\s*\)\)", r"Err(RtErr::\1)", min_matches=6)],
           vacuity="-",
           real_name="Runtime::eval_member_call"),
        Enum("GlobalBuiltin", source="src/builtins/mod.rs"),
        Raw("impl GlobalBuiltin {"),
        Fn("arity", label="global_arity", source="src/builtins/mod.rs", impl="impl Builtin for GlobalBuiltin",
           sig="pub fn arity(&self) -> (r: usize)", expect_sig=r"fn arity\(&self\) -> usize",
           ensures=["r == 1"], vacuity="-", real_name="<GlobalBuiltin as Builtin>::arity"),
        Raw("}"),
        # global built-ins: the resolver has checked the argument count (reserved names: V:static_rules:call_rule), so the arity assertion
        # and every `arg_values[0]` hold; `command` on a non-string is a reported type mismatch
        Fn("eval_builtin_call", impl="impl Runtime",
           sig="fn eval_builtin_call(builtin: GlobalBuiltin, args: &Args) -> (res: Result<Value, RtErr>)",
           expect_sig=r"fn eval_builtin_call\(\s*&mut self,\s*builtin: GlobalBuiltin,\s*args: &'a ArgList<'a>,\s*span: Span,?\s*\) -> Result<Value<'a>, RuntimeError>",
           requires=["args.n() == 1"],
           ensures=["!args.all_ok() ==> res is Err",
                    "args.all_ok() && builtin is Command ==> (res is Ok <==> args.t(0) == Ty::Str)",
                    "args.all_ok() && builtin is Command && res is Err ==> res->Err_0 == RtErr::TypeMismatch"],
           rewrites=[Rw("R11", r"let mut arg_values = Vec::with_capacity_in\(args\.args\.len\(\), self\.frame\);\s*for arg_expr in args\.args \{\s*arg_values\.push\(self\.eval_expr\(arg_expr\)\?\);\s*\}", "let mut arg_values = args.eval_all()?;", min_matches=1),
                     Rw("R10", r"assert_eq!\(arg_values\.len\(\), builtin\.arity\(\)\);", "assert!(arg_values.len() == builtin.arity());", min_matches=1),   # Verus has assert!, not assert_eq!
                     Rw("R9", r"mem::replace\(&mut arg_values\[0\], Value::Null\)", "take_first(&mut arg_values)", min_matches=1),
                     Rw("R13", r"GlobalBuiltin::shout\(&argv\);|self\.output\.push\(argv\);", "", min_matches=2),
                     Rw("R13", r"let argv = if self\.has_frame_arena\(\) \{.*?\};", "", min_matches=1),
                     Rw("R9", r"let t = GlobalBuiltin::type_of\((&arg_values\[0\])\);", r"global_builtin_io(\1)?;", min_matches=1),
                     Rw("R9", r"let s = GlobalBuiltin::read_line\((&arg_values\[0\]), self\.frame\)\s*\.map_err\(\|err\| RuntimeError::new\(err\.into\(\), span\)\)\?;", r"global_builtin_io(\1)?;", min_matches=1),
                     Rw("R9", r"let s = GlobalBuiltin::to_string\(self\.frame, (&arg_values\[0\])\);", r"global_builtin_io(\1)?;", min_matches=1),
                     PAY, ERR],
           vacuity="builtin: GlobalBuiltin, args: &Args",
           real_name="Runtime::eval_builtin_call"),
    ],
)
