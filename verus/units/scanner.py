import sys, pathlib
sys.path.insert(0, str(pathlib.Path(__file__).resolve().parent.parent))
from common import MEMCHR2, SLICE_EQ
from vlib.vextract import VUnit, Fn, Const, Raw, Rw

PRE = MEMCHR2 + SLICE_EQ + r'''
// =====================================================================================================================
// Model of the lexer state: the three fields the scanning functions read and write.  `errors` and `arena` are dropped
// (rewrites R6/R8): what is kept of an emitted diagnostic is its span and its label's span, which must be span_ok.
// =====================================================================================================================
pub struct Lexer<'input> {
    pub src: &'input [u8],
    pub pos: usize,
    pub len: usize,
}

pub struct Span { pub start: usize, pub end: usize }
pub struct Str { pub beg: usize, pub end: usize }           // a `&str` cut out of the source: only its byte range is kept
pub struct Buf { pub n: usize }                             // ArenaString: contents are irrelevant to span/position safety
pub enum ArenaCow { Borrowed(Str), Owned(Buf) }
pub enum Token {
    EOF, String(ArenaCow), Number(Str), Identifier(Str), IdentifierLit,
    LParen, RParen, LBracket, RBracket, Comma, Dot,
    IfToSay, IfNotSo, SmallPass, Keyword,
}
pub struct SpannedToken { pub token: Token, pub span: Span }

pub open spec fn is_cont(b: u8) -> bool { 0x80 <= b && b < 0xC0 }

// i is a character boundary of s
pub open spec fn boundary(s: Seq<u8>, i: int) -> bool {
    i == s.len() || (0 <= i < s.len() && !is_cont(s[i]))
}

// The ONLY facts assumed about valid UTF-8 (both follow from the encoding): the text starts on a boundary, and the byte
// after an ASCII byte never is a continuation byte.  (The third fact is the contract of first_char below.)
pub open spec fn after_ascii_ok(s: Seq<u8>, i: int) -> bool {
    0 <= i && i + 1 < s.len() && s[i] < 0x80 ==> !is_cont(s[i + 1])
}
pub open spec fn utf8_ok(s: Seq<u8>) -> bool {
    boundary(s, 0) && forall|i: int| #[trigger] after_ascii_ok(s, i)
}

// the property statement for one span: inside the text, ordered, on character boundaries
pub open spec fn span_ok(s: Seq<u8>, a: int, b: int) -> bool {
    0 <= a <= b <= s.len() && boundary(s, a) && boundary(s, b)
}

pub open spec fn is_ws(b: u8) -> bool { b == 32 || b == 9 || b == 10 || b == 12 || b == 13 }
pub open spec fn is_digit(b: u8) -> bool { 48 <= b && b <= 57 }
pub open spec fn is_alpha(b: u8) -> bool { (65 <= b && b <= 90) || (97 <= b && b <= 122) }
pub open spec fn is_word_byte(b: u8) -> bool { is_alpha(b) || b == 95 || is_digit(b) }

pub assume_specification [u8::is_ascii_whitespace] (b: &u8) -> (r: bool) ensures r == is_ws(*b);
pub assume_specification [u8::is_ascii_digit] (b: &u8) -> (r: bool) ensures r == is_digit(*b);
pub assume_specification [u8::is_ascii_alphabetic] (b: &u8) -> (r: bool) ensures r == is_alpha(*b);
pub assume_specification [u8::is_ascii] (b: &u8) -> (r: bool) ensures r == (*b < 0x80);

pub uninterp spec fn char_len_spec(c: char) -> int;

#[verifier::external_body]
fn char_len(c: char) -> (r: usize) ensures r == char_len_spec(c), 1 <= r <= 4,
{ c.len_utf8() }

// `rest.chars().next()` on rest = src[a..b) starting on a boundary: the first character exists iff rest is non-empty, it
// is 1..=4 bytes long, fits in rest and ends on a boundary.
#[verifier::external_body]
fn first_char(src: &[u8], rest: &Str) -> (r: Option<char>)
    requires rest.beg <= rest.end <= src@.len(), boundary(src@, rest.beg as int),
    ensures
        r.is_some() == (rest.beg < rest.end),
        r.is_some() ==> rest.beg + char_len_spec(r.unwrap()) <= rest.end && boundary(src@, rest.beg + char_len_spec(r.unwrap())),
        r.is_some() && src@[rest.beg as int] < 0x80 ==> char_len_spec(r.unwrap()) == 1,
{ unimplemented!() }

// `rest.chars().next().map_or(1, char::len_utf8)`
#[verifier::external_body]
fn first_char_len(src: &[u8], rest: &Str) -> (r: usize)
    requires rest.beg <= rest.end <= src@.len(), boundary(src@, rest.beg as int),
    ensures
        1 <= r <= 4,
        rest.beg < rest.end ==> rest.beg + r <= rest.end && boundary(src@, rest.beg + r),
{ unimplemented!() }

// `unsafe { str::from_utf8_unchecked(&self.src[a..b]) }` (rewrite R5): the precondition IS the safety condition of the real
// operation -- in bounds, ordered, and both ends on character boundaries (otherwise the &str would be invalid UTF-8).
#[verifier::external_body]
fn str_slice(src: &[u8], a: usize, b: usize) -> (r: Str)
    requires span_ok(src@, a as int, b as int),
    ensures r.beg == a, r.end == b,
{ Str { beg: a, end: b } }

// `&self.src[a..b]` as a byte slice (no boundary requirement)
#[verifier::external_body]
fn sub<'a>(src: &'a [u8], a: usize, b: usize) -> (r: &'a [u8])
    requires a <= b <= src@.len(),
    ensures r@ == src@.subrange(a as int, b as int),
{ &src[a..b] }

#[verifier::external_body]
fn slice_eq_str(a: &[u8], i: usize, j: usize, w: &str) -> (r: bool)
    requires i <= j <= a@.len(),
    ensures r ==> j - i == w@.len(),
{ &a[i..j] == w.as_bytes() }

fn mk_span(a: usize, b: usize) -> (r: Span) ensures r.start == a, r.end == b { Span { start: a, end: b } }

impl Buf {
    #[verifier::external_body] pub fn new() -> (b: Buf) { Buf { n: 0 } }
    #[verifier::external_body] pub fn push(&mut self, c: char) { }
    #[verifier::external_body] pub fn push_str(&mut self, s: Str) { }
    #[verifier::external_body] pub fn is_empty(&self) -> bool { self.n == 0 }
    #[verifier::external_body] pub fn reserve_exact(&mut self, n: usize) { }
}

impl<'input> Lexer<'input> {
    // type invariant of the lexer between any two scanning steps
    pub open spec fn inv(&self) -> bool {
        &&& self.len == self.src@.len()
        &&& self.len <= isize::MAX as usize
        &&& self.pos <= self.len
        &&& boundary(self.src@, self.pos as int)
        &&& utf8_ok(self.src@)
    }

    // Diagnostics::emit, reduced to what the property needs: the diagnostic's span and its label's span are valid
    #[verifier::external_body]
    fn emit_error(&mut self, span: Span, label_span: Span)
        requires
            span_ok(old(self).src@, span.start as int, span.end as int),
            span_ok(old(self).src@, label_span.start as int, label_span.end as int),
        ensures final(self).src == old(self).src, final(self).pos == old(self).pos, final(self).len == old(self).len,
    { }

    // `SpannedToken { token, span }`: every token span handed to the parser is valid (the parser copies them into its diagnostics)
    fn spanned(&self, token: Token, span: Span) -> (r: SpannedToken)
        requires span_ok(self.src@, span.start as int, span.end as int),
        ensures r.span == span,
    { SpannedToken { token, span } }

    // keyword table + identifier sanity check of scan_identifier_or_keyword (string matching on the word; iterator based):
    // cut out (rewrite R11); what it may do is emit diagnostics over start..self.pos
    #[verifier::external_body]
    fn keyword_or_identifier(&mut self, word: Str, start: usize) -> (t: Token)
        requires old(self).inv(), span_ok(old(self).src@, start as int, old(self).pos as int),
        ensures final(self).src == old(self).src, final(self).pos == old(self).pos, final(self).len == old(self).len,
    { Token::Keyword }
}

// the literal words passed to try_consume_word ("to", "say", "not", "so", "pass"): short and ASCII
#[verifier::external_body]
fn kw(s: &str) -> (r: &[u8])
    ensures 1 <= r@.len() <= 16, forall|i: int| 0 <= i < r@.len() ==> r@[i] < 0x80,
{ s.as_bytes() }

#[verifier::external_body]
fn word_is(src: &[u8], w: &Str, lit: &str) -> (r: bool)
    requires w.beg <= w.end <= src@.len(),
{ &src[w.beg..w.end] == lit.as_bytes() }

proof fn lemma_ascii_boundary(s: Seq<u8>, i: int)
    requires 0 <= i < s.len(), s[i] < 0x80,
    ensures boundary(s, i),
{ }

proof fn lemma_after_ascii(s: Seq<u8>, i: int)
    requires utf8_ok(s), 0 <= i < s.len(), s[i] < 0x80,
    ensures boundary(s, i + 1),
{ assert(after_ascii_ok(s, i)); }
'''

G = [
    Rw("R6", r"Range::from\(([^()]+?)\.\.([^()]+?)\)", r"mk_span(\1, \2)", min_matches=0),
    Rw("R6", r"self\.emit_error\(\s*(mk_span\([^()]*\)),\s*LexError::\w+,\s*vec!\[Label \{\s*span: (mk_span\([^()]*\)),.*?\}\],\s*\);",
       r"self.emit_error(\1, \2);", min_matches=0),
    Rw("R5", r"unsafe \{\s*str::from_utf8_unchecked\(&self\.src\[([^\]]+?)\.\.([^\]]+?)\]\)\s*\}", r"str_slice(self.src, \1, \2)", min_matches=0),
    Rw("R5", r"rest\.chars\(\)\.next\(\)\.map_or\(1, char::len_utf8\)", "first_char_len(self.src, &rest)", min_matches=0),
    Rw("R5", r"rest\.chars\(\)\.next\(\)", "first_char(self.src, &rest)", min_matches=0),
    Rw("R5", r"\bc\.len_utf8\(\)", "char_len(c)", min_matches=0),
    Rw("R4", r"self\.try_consume_word\(\"(\w+)\"\)", r'self.try_consume_word(kw("\1"))', min_matches=0),
    Rw("R8", r"SpannedToken \{ token: (Token::\w+), span: (mk_span\([^()]*\)) \}", r"self.spanned(\1, \2)", min_matches=0),
    Rw("R8", r"SpannedToken \{ token, span: (mk_span\([^()]*\)) \}", r"self.spanned(token, \1)", min_matches=0),
]

FRAME = ["final(self).src == old(self).src", "final(self).len == old(self).len"]
L = "impl Lexer"

UNIT = VUnit(
    name="scanner",
    props=["C07", "C10"],
    source="src/syntax/scanner.rs",
    preamble=PRE + "\nimpl<'input> Lexer<'input> {\n",
    epilogue="\n} // impl Lexer\n",
    global_rewrites=G,
    trusted=["valid UTF-8 is used only through: text starts on a boundary; the byte after an ASCII byte is not a continuation byte; "
             "the first character of a non-empty str starting on a boundary is 1..=4 bytes, fits, and ends on a boundary (contracts utf8_ok, first_char, first_char_len)",
             "memchr_rs::memchr2 behaves as documented",
             "Diagnostics::emit only stores its arguments (external_body emit_error keeps the diagnostic span and the label span and requires both span_ok)",
             "keyword table / identifier sanity check of scan_identifier_or_keyword cut out (R11): it can only emit diagnostics over start..pos"],
    lemma_obligations=[],
    items=[
        Fn("is_alpha_or_underscore", impl=L,
           sig="fn is_alpha_or_underscore(b: u8) -> (r: bool)",
           expect_sig=r"const fn is_alpha_or_underscore\(b: u8\) -> bool",
           ensures=["r == (is_alpha(b) || b == 95)"], vacuity="-", real_name="Lexer::is_alpha_or_underscore"),
        Fn("skip_whitespace", impl=L,
           sig="fn skip_whitespace(&mut self)", expect_sig=r"fn skip_whitespace\(&mut self\)",
           requires=["old(self).inv()"],
           ensures=FRAME + ["final(self).inv()", "final(self).pos >= old(self).pos",
                            # C10: skips exactly a maximal run of layout bytes
                            "forall|i: int| old(self).pos <= i < final(self).pos ==> is_ws(final(self).src@[i])",
                            "final(self).pos == final(self).len || !is_ws(final(self).src@[final(self).pos as int])"],
           loops={1: dict(invariant=["self.inv()", "self.src == old(self).src", "self.len == old(self).len", "self.pos >= old(self).pos",
                                     "forall|i: int| old(self).pos <= i < self.pos ==> is_ws(self.src@[i])"],
                          decreases="self.len - self.pos")},
           inserts=[(r"self\.pos \+= 1;", 1, "proof { lemma_after_ascii(self.src@, self.pos as int); }")],
           vacuity="s: Lexer", vacuity_subst=[("old(self)", "s")], real_name="Lexer::skip_whitespace"),

        Fn("skip_comment", impl=L,
           sig="fn skip_comment(&mut self)", expect_sig=r"fn skip_comment\(&mut self\)",
           requires=["old(self).inv()", "old(self).pos < old(self).len", "old(self).src@[old(self).pos as int] == 35"],
           ensures=FRAME + ["final(self).inv()", "final(self).pos > old(self).pos",
                            # C10: consumes exactly up to and including the first LF or CR (or to the end of the text)
                            "final(self).pos == final(self).len || final(self).src@[final(self).pos - 1] == 10 || final(self).src@[final(self).pos - 1] == 13",
                            "forall|i: int| old(self).pos <= i < final(self).pos - 1 ==> final(self).src@[i] != 10 && final(self).src@[i] != 13"],
           rewrites=[Rw("R5", r"&self\.src\[self\.pos\.\.len\]", "sub(self.src, self.pos, len)")],
           inserts=[(r"self\.pos \+= 1;", 1, "proof { lemma_after_ascii(self.src@, self.pos as int); }"),
                    (r"self\.pos \+= index;", 1, "proof { assert forall|i: int| self.pos <= i < self.pos + index implies self.src@[i] != 10 && self.src@[i] != 13 by { assert(haystack@[i - self.pos] == self.src@[i]); } if index < haystack@.len() { assert(haystack@[index as int] == self.src@[self.pos + index]); } }"),
                    (r"if self\.pos < len", 1, "proof { if self.pos < len { lemma_ascii_boundary(self.src@, self.pos as int); } }")],
           vacuity="s: Lexer", vacuity_subst=[("old(self)", "s")], real_name="Lexer::skip_comment"),
        Fn("read_word", impl=L,
           sig="fn read_word(&mut self) -> (w: Str)", expect_sig=r"fn read_word\(&mut self\) -> &'input str",
           requires=["old(self).inv()"],
           ensures=FRAME + ["final(self).inv()", "w.beg == old(self).pos", "w.end == final(self).pos", "final(self).pos >= old(self).pos",
                            "forall|i: int| old(self).pos <= i < final(self).pos ==> is_word_byte(final(self).src@[i])",
                            "final(self).pos == final(self).len || !is_word_byte(final(self).src@[final(self).pos as int])"],
           loops={1: dict(invariant=["self.inv()", "self.src == old(self).src", "self.len == old(self).len", "beg == old(self).pos", "self.pos >= beg",
                                     "forall|i: int| beg <= i < self.pos ==> is_word_byte(self.src@[i])"],
                          ensures=["self.pos == self.len || !is_word_byte(self.src@[self.pos as int])"],
                          decreases="self.len - self.pos")},
           inserts=[(r"self\.pos \+= 1;", 1, "proof { lemma_after_ascii(self.src@, self.pos as int); }")],
           vacuity="s: Lexer", vacuity_subst=[("old(self)", "s")], real_name="Lexer::read_word"),
        Fn("try_consume_word", impl=L,
           sig="fn try_consume_word(&mut self, word: &[u8]) -> (r: bool)", expect_sig=r"fn try_consume_word\(&mut self, word: &str\) -> bool",
           requires=["old(self).inv()", "1 <= word@.len() <= 16", "forall|i: int| 0 <= i < word@.len() ==> word@[i] < 0x80"],
           ensures=FRAME + ["final(self).inv()",
                            # C10: any run of layout bytes may separate the words of a multi-word keyword; nothing is consumed on failure
                            "!r ==> final(self).pos == old(self).pos",
                            "r ==> final(self).pos >= old(self).pos + word@.len()",
                            "r ==> final(self).src@.subrange(final(self).pos - word@.len(), final(self).pos as int) =~= word@",
                            "r ==> forall|i: int| old(self).pos <= i < final(self).pos - word@.len() ==> is_ws(final(self).src@[i])",
                            "r ==> (final(self).pos == final(self).len || !(is_alpha(final(self).src@[final(self).pos as int]) || final(self).src@[final(self).pos as int] == 95))",
                            # completeness (C10): whenever the word does follow a maximal run of layout bytes and ends on a word boundary, it IS consumed
                            "forall|b: int| #![trigger old(self).src@[b]] (old(self).pos <= b <= old(self).len && (forall|i: int| old(self).pos <= i < b ==> is_ws(old(self).src@[i])) && (b == old(self).len || !is_ws(old(self).src@[b])) && b + word@.len() <= old(self).len && old(self).src@.subrange(b, b + word@.len()) =~= word@ && (b + word@.len() == old(self).len || !(is_alpha(old(self).src@[b + word@.len()]) || old(self).src@[b + word@.len()] == 95))) ==> r"],
           loops={1: dict(invariant=["self.inv()", "len == self.len", "self.pos <= beg <= len", "forall|i: int| self.pos <= i < beg ==> is_ws(self.src@[i])"],
                          ensures=["beg == len || !is_ws(self.src@[beg as int])"],
                          decreases="len - beg")},
           rewrites=[Rw("R5", r"&self\.src\[beg\.\.end\] == word\.as_bytes\(\)", "slice_eq(self.src, beg, end, word)")],
           inserts=[(r"self\.pos = end;", 1, "proof { assert(self.src@[end - 1] == word@[word@.len() - 1]) by { assert(self.src@.subrange(beg as int, end as int)[word@.len() - 1] == word@[word@.len() - 1]); }; lemma_after_ascii(self.src@, end - 1); }")],
           vacuity="s: Lexer, word: &[u8]", vacuity_subst=[("old(self)", "s")], real_name="Lexer::try_consume_word"),
        Fn("scan_punctuation", impl=L,
           sig="fn scan_punctuation(&mut self, b: u8) -> (r: Option<Token>)", expect_sig=r"fn scan_punctuation\(&mut self, b: u8\) -> Option<Token<'arena>>",
           requires=["old(self).inv()", "old(self).pos < old(self).len", "b == old(self).src@[old(self).pos as int]"],
           ensures=FRAME + ["final(self).inv()", "r.is_some() ==> final(self).pos == old(self).pos + 1", "r.is_none() ==> final(self).pos == old(self).pos"],
           inserts=[(r"^\s*match b \{", 1, "proof { if b < 0x80 { lemma_after_ascii(self.src@, self.pos as int); } }")],
           vacuity="s: Lexer, b: u8", vacuity_subst=[("old(self)", "s")], real_name="Lexer::scan_punctuation"),

        Fn("scan_number", impl=L,
           sig="fn scan_number(&mut self, start: usize) -> (r: Option<Token>)", expect_sig=r"fn scan_number\(&mut self, start: usize\) -> Option<Token<'arena>>",
           requires=["old(self).inv()", "start == old(self).pos", "old(self).pos < old(self).len", "is_digit(old(self).src@[old(self).pos as int])"],
           ensures=FRAME + ["final(self).inv()", "final(self).pos > old(self).pos"],
           loops={1: dict(invariant=["self.inv()", "self.src == old(self).src", "self.len == old(self).len", "len == self.len", "start == old(self).pos", "self.pos >= start",
                                     "self.pos == start ==> is_digit(self.src@[self.pos as int]) && self.pos < len"],
                          decreases="len - self.pos"),
                  2: dict(invariant=["self.inv()", "self.src == old(self).src", "self.len == old(self).len", "len == self.len", "start == old(self).pos", "self.pos > start"], decreases="len - self.pos"),
                  3: dict(invariant=["self.inv()", "self.src == old(self).src", "self.len == old(self).len", "len == self.len", "start == old(self).pos", "self.pos > start"] + ["id_start <= self.pos", "boundary(self.src@, id_start as int)"], decreases="len - self.pos")},
           inserts=[(r"self\.pos \+= 1;", 1, "proof { lemma_after_ascii(self.src@, self.pos as int); }"),
                    (r"self\.pos \+= 1;", 2, "proof { lemma_after_ascii(self.src@, self.pos as int); }"),
                    (r"self\.pos \+= 1;", 3, "proof { lemma_after_ascii(self.src@, self.pos as int); }"),
                    (r"self\.pos \+= 1;", 4, "proof { lemma_after_ascii(self.src@, self.pos as int); }")],
           vacuity="s: Lexer, start: usize", vacuity_subst=[("old(self)", "s")], real_name="Lexer::scan_number"),
        Fn("scan_identifier_or_keyword", impl=L,
           sig="fn scan_identifier_or_keyword(&mut self, start: usize) -> (r: Token)",
           expect_sig=r"fn scan_identifier_or_keyword\(&mut self, start: usize\) -> Token<'arena>",
           requires=["old(self).inv()", "start == old(self).pos", "old(self).pos < old(self).len",
                     "is_alpha(old(self).src@[old(self).pos as int]) || old(self).src@[old(self).pos as int] == 95"],
           ensures=FRAME + ["final(self).inv()", "final(self).pos > old(self).pos",
                            # C10: when the multi-word lookahead fails the position is rolled back to exactly the end of the first word
                            "r is IdentifierLit ==> (forall|i: int| old(self).pos <= i < final(self).pos ==> is_word_byte(final(self).src@[i])) && (final(self).pos == final(self).len || !is_word_byte(final(self).src@[final(self).pos as int]))"],
           rewrites=[Rw("R4", r'word == "(\w+)"', r'word_is(self.src, &word, "\1")', min_matches=2),
                     Rw("R8", r'Token::Identifier\("\w+"\)', "Token::IdentifierLit", min_matches=2),
                     Rw("R11", r"match word \{.*\}(\s*\})\s*$", r"self.keyword_or_identifier(word, start)\1")],
           vacuity="s: Lexer, start: usize", vacuity_subst=[("old(self)", "s")], real_name="Lexer::scan_identifier_or_keyword"),

        Fn("scan_string", impl=L,
           sig="fn scan_string(&mut self, start: usize, quote: u8) -> (r: Token)",
           expect_sig=r"fn scan_string\(&mut self, start: usize, quote: u8\) -> Token<'arena>",
           requires=["old(self).inv()", "start == old(self).pos", "old(self).pos < old(self).len",
                     "quote == old(self).src@[old(self).pos as int]", "quote == 34 || quote == 39"],
           ensures=FRAME + ["final(self).inv()", "final(self).pos > old(self).pos"],
           loops={1: dict(invariant=["self.inv()", "self.src == old(self).src", "self.len == old(self).len", "start == old(self).pos",
                                     "beg == start + 1", "beg <= self.pos", "boundary(self.src@, start as int)", "boundary(self.src@, beg as int)",
                                     "quote == 34 || quote == 39"],
                          decreases="self.len - self.pos")},
           rewrites=[Rw("R8", r"ArenaString::new_in\(self\.arena\)", "Buf::new()"),
                     Rw("R5", r"&self\.src\[self\.pos\.\.self\.len\]", "sub(self.src, self.pos, self.len)"),
                     Rw("R10", r"let mut has_escape = false;", "let mut has_escape: bool = false;", min_matches=0)],
           inserts=[(r"let beg = self\.pos;", 1, "proof { lemma_after_ascii(self.src@, start as int); }"),
                    (r"let line_end = self\.pos \+ newline;", 1, "proof { assert(bytes@[newline as int] == self.src@[self.pos + newline]); lemma_ascii_boundary(self.src@, self.pos + newline); }"),
                    (r"let c = self\.src\[pos\];", 1, "proof { assert(bytes@[quote_or_escape as int] == self.src@[self.pos + quote_or_escape]); lemma_ascii_boundary(self.src@, pos as int); lemma_after_ascii(self.src@, pos as int); }"),
                    (r"let esc = self\.src\[pos \+ 1\];", 1, "proof { if esc < 0x80 { lemma_after_ascii(self.src@, pos + 1); } }", "after")],
           vacuity="s: Lexer, start: usize, quote: u8", vacuity_subst=[("old(self)", "s")], real_name="Lexer::scan_string"),
        Fn("next_token", impl=L,
           sig="fn next_token(&mut self) -> (r: SpannedToken)", expect_sig=r"fn next_token\(&mut self\) -> SpannedToken<'arena>",
           requires=["old(self).inv()"],
           ensures=FRAME + ["final(self).inv()", "final(self).pos >= old(self).pos",
                            "span_ok(final(self).src@, r.span.start as int, r.span.end as int)",
                            # token spans are monotone and never overlap: a token starts at or after where the previous call stopped and ends
                            # exactly where this call stops -- so the parser's `start..end` spans (start from an earlier token than end) are ordered
                            "r.span.start >= old(self).pos", "r.span.end == final(self).pos"],
           loops={1: dict(invariant=["self.inv()", "self.src == old(self).src", "self.len == old(self).len", "self.pos >= old(self).pos"],
                          decreases="self.len - self.pos")},
           inserts=[(r"^\s*self\.pos \+= 1;", 2, "proof { lemma_after_ascii(self.src@, self.pos as int); }")],
           vacuity="s: Lexer", vacuity_subst=[("old(self)", "s")], real_name="Lexer::next_token"),
    ],
)
