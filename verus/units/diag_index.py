import sys, pathlib
sys.path.insert(0, str(pathlib.Path(__file__).resolve().parent.parent))
from common import MEMCHR2
from vlib.vextract import VUnit, Fn, Const, Raw, Rw

PRE = MEMCHR2 + r'''
pub open spec fn is_cont(b: u8) -> bool { 0x80 <= b && b < 0xC0 }
pub open spec fn boundary(s: Seq<u8>, i: int) -> bool {
    i == s.len() || (0 <= i < s.len() && !is_cont(s[i]))
}
pub open spec fn after_ascii_ok(s: Seq<u8>, i: int) -> bool {
    0 <= i && i + 1 < s.len() && s[i] < 0x80 ==> !is_cont(s[i + 1])
}
// the same two facts about valid UTF-8 as in unit scanner
pub open spec fn utf8_ok(s: Seq<u8>) -> bool {
    boundary(s, 0) && forall|i: int| #[trigger] after_ascii_ok(s, i)
}
pub open spec fn span_ok(s: Seq<u8>, a: int, b: int) -> bool {
    0 <= a <= b <= s.len() && boundary(s, a) && boundary(s, b)
}
pub open spec fn is_nl(b: u8) -> bool { b == 10 || b == 13 }

// what compute_line_starts must produce for line_col_from_span's index arithmetic to be safe
pub open spec fn line_starts_ok(h: Seq<u8>, v: Seq<usize>) -> bool {
    &&& v.len() >= 1
    &&& v[0] == 0
    &&& forall|i: int, j: int| 0 <= i < j < v.len() ==> v[i] < v[j]
    &&& forall|i: int| 0 <= i < v.len() ==> v[i] <= h.len() && boundary(h, v[i] as int)
    &&& forall|i: int| 1 <= i < v.len() ==> v[i] >= 1 && is_nl(#[trigger] h[v[i] - 1])
}

proof fn lemma_after_ascii(s: Seq<u8>, i: int)
    requires utf8_ok(s), 0 <= i < s.len(), s[i] < 0x80,
    ensures boundary(s, i + 1),
{ assert(after_ascii_ok(s, i)); }

// `&src[a..b]` on a &str (rewrite R5): panics unless in bounds, ordered and on character boundaries
#[verifier::external_body]
fn str_slice(src: &[u8], a: usize, b: usize) -> (r: (usize, usize))
    requires span_ok(src@, a as int, b as int),
    ensures r.0 == a, r.1 == b,
{ (a, b) }

// Diagnostics::visual_col: character fold over the slice (no index arithmetic); any usize small enough to add 1
#[verifier::external_body]
fn visual_col(text: (usize, usize)) -> (r: usize)
    ensures r <= text.1 - text.0,
{ 0 }

// std: <[usize]>::binary_search on a strictly increasing slice (documented contract)
#[verifier::external_body]
fn binary_search_usize(v: &Vec<usize>, x: usize) -> (r: Result<usize, usize>)
    requires forall|i: int, j: int| 0 <= i < j < v@.len() ==> v@[i] < v@[j],
    ensures
        match r {
            Ok(i) => i < v@.len() && v@[i as int] == x,
            Err(i) => i <= v@.len() && (forall|k: int| 0 <= k < i ==> v@[k] < x) && (forall|k: int| i <= k < v@.len() ==> v@[k] > x),
        },
{ v.binary_search(&x) }
'''

EPI = r'''
// ---------------------------------------------------------------------------------------------------------------------
// Lemma over the contract of line_col_from_span: every `&src[..]` in Diagnostics::render_diagnostic is a valid str slice,
// provided the diagnostic's span and its labels' spans are span_ok (which unit `scanner` proves for lexer diagnostics).
//   src[line_start..line_end], src[span.start..min(span.end, line_end)],
//   same-line label: src[line_start..label.start], src[label.start..min(label.end, line_end)]
// ---------------------------------------------------------------------------------------------------------------------
proof fn lemma_render_slices_ok(s: Seq<u8>, a: int, b: int, line_start: int, line_end: int)
    requires
        span_ok(s, a, b),
        // postcondition of line_col_from_span(src, a)
        span_ok(s, line_start, line_end), line_start <= a <= line_end,
    ensures
        span_ok(s, line_start, line_end),
        span_ok(s, a, if b < line_end { b } else { line_end }),
        span_ok(s, line_start, a),
{ }
'''

UNIT = VUnit(
    name="diag_index",
    props=["C07"],
    source="src/diagnostics.rs",
    preamble=PRE,
    epilogue=EPI,
    lemma_obligations=["lemma_render_slices_ok"],
    trusted=["<[usize]>::binary_search behaves as documented on a sorted slice (external contract)",
             "Diagnostics::visual_col is a character fold without index arithmetic (external)",
             "the arena mark/reset around the line table in line_col_from_span is dropped (R3): it releases scratch memory and is not index arithmetic",
             "Vec<usize, &Arena> modelled by Vec<usize> (rewrite R8: `Vec::with_capacity_in(len, self.arena)` -> `Vec::with_capacity(len)`)"],
    items=[
        Fn("compute_line_starts", impl="impl Diagnostics",
           expect_sig=r"fn compute_line_starts\(&self, src: &str\) -> Vec<usize, &'arena Arena>",
           sig="fn compute_line_starts(haystack: &[u8]) -> (starts: Vec<usize>)",
           requires=["utf8_ok(haystack@)", "haystack@.len() <= isize::MAX as usize"],
           ensures=["line_starts_ok(haystack@, starts@)"],
           loops={1: dict(invariant=["len == haystack@.len()", "len <= isize::MAX as usize", "utf8_ok(haystack@)", "offset <= len",
                                     "line_starts_ok(haystack@, starts@)", "starts@[starts@.len() - 1] <= offset",
                                     "starts@[starts@.len() - 1] == offset || offset == 0"],
                          decreases="len - offset")},
           rewrites=[Rw("R4", r"let haystack = src\.as_bytes\(\);", ""),
                     Rw("R8", r"Vec::with_capacity_in\(len, self\.arena\)", "Vec::<usize>::with_capacity(len)"),
                     Rw("R10", r"let mut offset = 0;", "let mut offset: usize = 0;")],
           inserts=[(r"if haystack\[idx\] == b'\\r'", 1, "proof { lemma_after_ascii(haystack@, idx as int); if idx + 1 < len && haystack@[idx + 1] == 10 { lemma_after_ascii(haystack@, idx + 1); } }")],
           vacuity="haystack: &[u8]", real_name="Diagnostics::compute_line_starts"),
        Fn("line_col_from_span", impl="impl Diagnostics",
           expect_sig=r"fn line_col_from_span\(&self, src: &str, start: usize\) -> \(usize, usize, usize, usize\)",
           sig="fn line_col_from_span(src: &[u8], start: usize) -> (r: (usize, usize, usize, usize))",
           requires=["utf8_ok(src@)", "src@.len() <= isize::MAX as usize", "start <= src@.len()", "boundary(src@, start as int)"],
           ensures=["r.0 >= 1", "r.1 >= 1",
                    # (line, col, line_start, line_end): the line's byte range is a valid str slice that contains `start`
                    "span_ok(src@, r.2 as int, r.3 as int)", "r.2 <= start <= r.3"],
           rewrites=[Rw("R9", r"self\.compute_line_starts\(src\)", "compute_line_starts(src)"),
                     # the scratch release of the table (1e996ac): frees memory, no index arithmetic; that the table is the only
                     # allocation between mark and reset is read off the four lines in between (compute_line_starts is the only call)
                     Rw("R3", r"let mark = self\.arena\.offset\(\);", "", min_matches=0),
                     Rw("R3", r"unsafe \{ self\.arena\.reset\(mark\) \};", "", min_matches=0),
                     Rw("R9", r"line_starts\.binary_search\(&start\)\.unwrap_or_else\(\|x\| x - 1\)",
                        "match binary_search_usize(&line_starts, start) { Ok(i) => i, Err(x) => x - 1 }"),
                     Rw("R5", r"Self::visual_col\(&src\[line_start\.\.start\]\)", "visual_col(str_slice(src, line_start, start))")],
           inserts=[(r"let line_end = ", 1, "proof { if line_idx + 1 < line_starts@.len() { let e = line_starts@[line_idx + 1]; assert(is_nl(src@[e - 1])); assert(src@[e - 1] < 0x80); } }")],
           vacuity="src: &[u8], start: usize", real_name="Diagnostics::line_col_from_span"),
    ],
)
