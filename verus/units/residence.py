import sys, pathlib
sys.path.insert(0, str(pathlib.Path(__file__).resolve().parent.parent))
from vlib.vextract import VUnit, Fn, Const, Raw, Rw, Enum, Block, Struct

PRE = r'''
// ---------------------------------------------------------------------------------------------------------------------
// Region model.  Every heap-backed part of a runtime value lives in one of four regions:
//   Source  the program text (string literals borrow from it; it outlives the run)
//   Pool    a slot of the string pool (recycled when its owner is overwritten)
//   Persist the persistent arena (lives as long as the run)
//   Frame   the frame arena, reset at every loop iteration and function return
// What is decided: after Value::promote nothing is left in Frame; Value::clone_into produces a value all of whose owned parts are
// fresh allocations in the arena it is given and which holds no borrowed view of an owned string.
// ---------------------------------------------------------------------------------------------------------------------
#[derive(PartialEq, Eq, Clone, Copy)]
pub enum Region { Source, Pool, Persist, Frame }
// `&'a str` held by ArenaCow::Borrowed: where its bytes live, and whether it is a view of some ArenaString's bytes (ArenaString::as_arena_str)
#[derive(Clone, Copy)]
pub struct SRef { pub region: Ghost<Region>, pub of_owned: Ghost<bool> }
// ArenaString.  `epoch` is meaningful for Frame strings only: the frame epoch (number of resets seen by relocate_return_value's frame) it was allocated in
pub struct SBuf { pub region: Ghost<Region>, pub epoch: Ghost<nat> }
pub struct ArenaM { pub region: Ghost<Region>, pub epoch: Ghost<nat> }
pub struct PoolM { pub persistent: ArenaM }
pub struct CmdV { pub region: Ghost<Region> }    // ProcessCommand: all its strings/vectors live in one arena (maintained by unit cmd_store)
pub struct ResV { pub region: Ghost<Region> }    // ProcessResult
'''

MODEL = r'''
impl SBuf {
    // ArenaString::from_str(arena, s): a fresh string in `arena`
    #[verifier::external_body]
    pub fn from_str(arena: &ArenaM, s: &SBuf) -> (r: SBuf) ensures r.region@ == arena.region@, r.epoch@ == arena.epoch@ { unimplemented!() }
    // s.arena(): the allocator the string reports.  Pool slots are carved out of the persistent arena and report it.
    #[verifier::external_body]
    pub fn in_arena(&self, a: &ArenaM) -> (r: bool) ensures a.region@ == Region::Persist ==> r == (self.region@ == Region::Persist || self.region@ == Region::Pool) { unimplemented!() }
    #[verifier::external_body]
    pub fn as_arena_str(&self) -> (r: SRef) ensures r.region@ == self.region@, r.of_owned@ { unimplemented!() }
    #[verifier::external_body]
    pub fn as_sref(&self) -> (r: SRef) ensures r.region@ == self.region@, r.of_owned@ { unimplemented!() }
}
impl ArenaM {
    // frame.contains_ptr(p)
    #[verifier::external_body]
    pub fn contains_ref(&self, s: &SRef) -> (r: bool) ensures r == (s.region@ == self.region@) { unimplemented!() }
    #[verifier::external_body]
    pub fn contains_handle(&self, h: &HostV) -> (r: bool) ensures r == (h.handle@ == self.region@) { unimplemented!() }
}
impl PoolM {
    pub open spec fn wf(&self) -> bool { self.persistent.region@ == Region::Persist }
    pub fn arena(&self) -> (r: &ArenaM) ensures r.region@ == self.persistent.region@ { &self.persistent }
    // PoolSet::contains / alloc_str: contracts proved for the real PoolSet under C12
    #[verifier::external_body]
    pub fn contains_ref(&self, s: &SRef) -> (r: bool) ensures r == (s.region@ == Region::Pool) { unimplemented!() }
    #[verifier::external_body]
    pub fn alloc_str(&self, s: &SRef) -> (r: SBuf) ensures r.region@ == Region::Pool { unimplemented!() }
}
impl CmdV {
    // ProcessCommand::clone_into(arena): every string and vector re-allocated in `arena` (bounded Kani harness under C15)
    #[verifier::external_body]
    pub fn clone_into(&self, arena: &ArenaM) -> (r: CmdV) ensures r.region@ == arena.region@ { unimplemented!() }
}
impl ResV {
    #[verifier::external_body]
    pub fn clone_into(&self, arena: &ArenaM) -> (r: ResV) ensures r.region@ == arena.region@ { unimplemented!() }
}
impl Clone for CmdV { #[verifier::external_body] fn clone(&self) -> (r: CmdV) ensures r.region@ == self.region@ { unimplemented!() } }
impl Clone for ResV { #[verifier::external_body] fn clone(&self) -> (r: ResV) ensures r.region@ == self.region@ { unimplemented!() } }

// HostHandle: a pointer to a HostValue placed in an arena
pub struct HostV { pub handle: Ghost<Region>, pub inner: HostValue }
pub open spec fn hv_region(h: HostValue) -> Region { match h { HostValue::ProcessCommand(c) => c.region@, HostValue::ProcessResult(r) => r.region@ } }
impl HostV {
    // a handle outside the frame never points at frame data (kept by construction: new_in(arena, value built in arena))
    pub open spec fn wf(&self) -> bool { self.handle@ != Region::Frame ==> hv_region(self.inner) != Region::Frame }
    pub open spec fn outlives(&self) -> bool { self.handle@ != Region::Frame && hv_region(self.inner) != Region::Frame }
    pub fn new_in(arena: &ArenaM, value: HostValue) -> (r: HostV) ensures r.handle@ == arena.region@, r.inner == value { HostV { handle: Ghost(arena.region@), inner: value } }
    pub fn get(&self) -> (r: &HostValue) ensures *r == self.inner { &self.inner }
}

// Vec<Value, &Arena>: the elements and the arena the buffer lives in
pub struct ArrV { pub items: Vec<Value>, pub store: Ghost<Region> }
impl ArrV {
    pub fn with_capacity_in(n: usize, arena: &ArenaM) -> (a: ArrV) ensures a.items@.len() == 0, a.store@ == arena.region@ { ArrV { items: Vec::with_capacity(n), store: Ghost(arena.region@) } }
    pub fn len(&self) -> (n: usize) ensures n == self.items@.len() { self.items.len() }
    pub fn push(&mut self, v: Value) ensures final(self).items@ == old(self).items@.push(v), final(self).store@ == old(self).store@ { self.items.push(v) }
}
impl IntoIterator for ArrV {
    type Item = Value;
    type IntoIter = std::vec::IntoIter<Value>;
    fn into_iter(self) -> (r: std::vec::IntoIter<Value>)
        ensures vstd::std_specs::iter::IteratorSpec::remaining(&r) == self.items@
    { self.items.into_iter() }
}
impl<'x> IntoIterator for &'x ArrV {
    type Item = &'x Value;
    type IntoIter = std::slice::Iter<'x, Value>;
    fn into_iter(self) -> (r: std::slice::Iter<'x, Value>)
        ensures vstd::std_specs::iter::IteratorSpec::remaining(&r).len() == self.items@.len(),
                forall|i: int| 0 <= i < self.items@.len() ==> *(#[trigger] vstd::std_specs::iter::IteratorSpec::remaining(&r)[i]) == self.items@[i]
    { self.items.iter() }
}

// ---- relocate_return_value: the frame is reset to the mark taken at call entry; whatever is returned must survive that ----------
pub struct Rt { pub arena: ArenaM, pub frame: ArenaM, pub pool: PoolM }
impl Rt {
    pub open spec fn wf(&self) -> bool { self.arena.region@ == Region::Persist && self.frame.region@ == Region::Frame && self.pool.wf() }
}
impl ArenaM {
    #[verifier::external_body]
    pub fn offset(&self) -> (r: usize) { unimplemented!() }
    // `unsafe { arena.reset(mark) }`: everything allocated in this arena since the mark is gone; a new epoch starts
    #[verifier::external_body]
    pub fn reset(&mut self, mark: usize) ensures final(self).region@ == old(self).region@, final(self).epoch@ == old(self).epoch@ + 1 { unimplemented!() }
}
#[verifier::external_body]
fn drop_sbuf(s: SBuf) { unimplemented!() }
// the returned value as relocate_return_value may receive it: borrowed strings never view frame bytes (they view source text, or
// persistent bytes), hosts are wf; owned strings, arrays and hosts may live anywhere
pub open spec fn ret_wf(v: Value) -> bool {
    match v {
        Value::Str(ArenaCow::Borrowed(s)) => s.region@ != Region::Frame,
        Value::Host(h) => h.wf(),
        Value::Array(a) => wf(v),
        _ => true,
    }
}
// nothing of v is frame memory from before the reset: either outside the frame, or allocated in frame epoch e (after the reset)
pub open spec fn survives(v: Value, e: nat) -> bool {
    match v {
        Value::Str(ArenaCow::Owned(b)) => b.region@ != Region::Frame || b.epoch@ == e,
        _ => outlives(v),
    }
}
pub open spec fn cow_region(c: ArenaCow) -> Region { match c { ArenaCow::Borrowed(s) => s.region@, ArenaCow::Owned(b) => b.region@ } }
// the input invariant: no borrowed view of an owned string is held in a value (established by clone_into, repaired by f06a762), hosts wf
pub open spec fn wf(v: Value) -> bool decreases v {
    match v {
        Value::Str(ArenaCow::Borrowed(s)) => !s.of_owned@,
        Value::Host(h) => h.wf(),
        Value::Array(a) => forall|i: int| 0 <= i < a.items@.len() ==> wf(#[trigger] a.items@[i]),
        _ => true,
    }
}
// nothing of v lives in the frame arena
pub open spec fn outlives(v: Value) -> bool decreases v {
    match v {
        Value::Str(c) => cow_region(c) != Region::Frame,
        Value::Host(h) => h.outlives(),
        Value::Array(a) => a.store@ != Region::Frame && forall|i: int| 0 <= i < a.items@.len() ==> outlives(#[trigger] a.items@[i]),
        _ => true,
    }
}
// every owned part of v is an allocation in region r, and v holds no view of an owned string
pub open spec fn fresh_in(v: Value, r: Region) -> bool decreases v {
    match v {
        Value::Str(ArenaCow::Owned(b)) => b.region@ == r,
        Value::Str(ArenaCow::Borrowed(s)) => !s.of_owned@,
        Value::Host(h) => h.handle@ == r && hv_region(h.inner) == r,
        Value::Array(a) => a.store@ == r && forall|i: int| 0 <= i < a.items@.len() ==> fresh_in(#[trigger] a.items@[i], r),
        _ => true,
    }
}
'''

UNIT = VUnit(
    name="residence",
    props=["C02", "C05"],
    source="src/runtime.rs",
    preamble=PRE,
    trusted=["region model: pointer tests are replaced by region tests (`frame.contains_ptr(p)` -> the referent's region is Frame, `pool.contains(p)` -> Pool, `ptr::eq(s.arena(), persistent)` -> Persist or Pool: pool slots are carved out of the persistent arena)",
             "PoolSet::alloc_str/contains by their contracts (proved for the real PoolSet under C12); ArenaString::from_str allocates in the arena it is given; ProcessCommand/ProcessResult::clone_into re-allocate everything in the given arena (C15 harnesses)",
             "partial correctness for the recursive functions (exec_allows_no_decreases_clause): recursion is over the finite value tree"],
    items=[
        Enum("ArenaCow", source="src/arena/cow.rs", derive="", rewrites=[Rw("R12", r"&'a str", "SRef"), Rw("R12", r"ArenaString<'a>", "SBuf")]),
        Enum("HostValue", source="src/process.rs", derive="", rewrites=[Rw("R12", r"ProcessCommand<'a>", "CmdV"), Rw("R12", r"ProcessResult<'a>", "ResV")]),
        Enum("Value", derive="", rewrites=[
            Rw("R12", r"ArenaCow<'a>", "ArenaCow"), Rw("R12", r"Vec<Value<'a>, &'a Arena>", "ArrV"), Rw("R12", r"HostHandle<'a>", "HostV"),
        ]),
        Raw(MODEL),
        Raw("impl ArenaCow {"),
        Fn("clone", label="cow_clone", source="src/arena/cow.rs", impl="impl Clone for ArenaCow",
           sig="pub fn clone(&self) -> (r: ArenaCow)", expect_sig=r"fn clone\(&self\) -> Self",
           ensures=["r is Borrowed", "cow_region(r) == cow_region(*self)", "r->Borrowed_0.of_owned@ == (*self is Owned || self->Borrowed_0.of_owned@)"],
           rewrites=[Rw("R8", r"ArenaCow::Borrowed\(s\) => ArenaCow::Borrowed\(s\)", "ArenaCow::Borrowed(s) => ArenaCow::Borrowed(*s)")],
           vacuity="-", real_name="<ArenaCow as Clone>::clone"),
        Fn("promote", label="cow_promote", source="src/arena/cow.rs", impl="impl ArenaCow",
           sig="pub fn promote(self, pool: &PoolM, frame: &ArenaM) -> (r: ArenaCow)",
           expect_sig=r"fn promote\(self, pool: &PoolSet<'a>, frame: &Arena\) -> Self",
           requires=["pool.wf()", "frame.region@ == Region::Frame"],
           ensures=["cow_region(r) != Region::Frame",
                    # a borrowed result is a view of the source text or of persistent bytes, never of a pool slot someone else owns
                    "r is Borrowed ==> cow_region(r) == Region::Source || cow_region(r) == Region::Persist"],
           rewrites=[Rw("R5", r"frame\.contains_ptr\(s\.as_ptr\(\)\)", "frame.contains_ref(&s)", min_matches=1),
                     Rw("R5", r"pool\.contains\(s\.as_ptr\(\)\)", "pool.contains_ref(&s)", min_matches=1),
                     Rw("R8", r"pool\.alloc_str\(s\)", "pool.alloc_str(&s)", min_matches=1),
                     Rw("R8", r"pool\.alloc_str\(s\.as_str\(\)\)", "pool.alloc_str(&s.as_sref())", min_matches=1),
                     Rw("R5", r"std::ptr::eq\(s\.arena\(\), persistent\)", "s.in_arena(persistent)", min_matches=1)],
           vacuity="-", real_name="ArenaCow::promote"),
        Raw("}\nimpl HostValue {"),
        Fn("clone_into", label="hostvalue_clone_into", source="src/process.rs", impl="impl HostValue",
           sig="pub fn clone_into(&self, arena: &ArenaM) -> (r: HostValue)", expect_sig=r"fn clone_into<'b>\(&self, arena: &'b Arena\) -> HostValue<'b>",
           ensures=["hv_region(r) == arena.region@"], vacuity="-", real_name="HostValue::clone_into"),
        Raw("}\nimpl Clone for HostValue { fn clone(&self) -> (r: HostValue) ensures hv_region(r) == hv_region(*self) { match self { HostValue::ProcessCommand(c) => HostValue::ProcessCommand(c.clone()), HostValue::ProcessResult(x) => HostValue::ProcessResult(x.clone()) } } }\nimpl HostV {"),
        Fn("clone_into", label="hosthandle_clone_into", source="src/process.rs", impl="impl HostHandle",
           sig="pub fn clone_into(&self, arena: &ArenaM) -> (r: HostV)", expect_sig=r"fn clone_into<'b>\(&self, arena: &'b Arena\) -> HostHandle<'b>",
           ensures=["r.handle@ == arena.region@", "hv_region(r.inner) == arena.region@"],
           rewrites=[Rw("R8", r"HostHandle::new_in\(", "HostV::new_in(", min_matches=1)],
           vacuity="-", real_name="HostHandle::clone_into"),
        Fn("promote", label="hosthandle_promote", source="src/process.rs", impl="impl HostHandle",
           sig="pub fn promote(self, pool: &PoolM, frame: &ArenaM) -> (r: HostV)",
           expect_sig=r"fn promote\(self, pool: &PoolSet<'a>, frame: &Arena\) -> HostHandle<'a>",
           requires=["pool.wf()", "frame.region@ == Region::Frame", "self.wf()"],
           ensures=["r.outlives()"],
           rewrites=[Rw("R5", r"frame\.contains_ptr\(self\.0\.as_ptr\(\)\.cast::<u8>\(\)\.cast_const\(\)\)", "frame.contains_handle(&self)", min_matches=1),
                     Rw("R8", r"HostHandle::new_in\(", "HostV::new_in(", min_matches=1)],
           vacuity="-", real_name="HostHandle::promote"),
        Raw("}\nimpl Value {"),
        Fn("promote", label="value_promote", impl="impl Value",
           sig="pub fn promote(self, pool: &PoolM, frame: &ArenaM) -> (r: Value)",
           expect_sig=r"fn promote\(self, pool: &PoolSet<'a>, frame: &Arena\) -> Self",
           requires=["pool.wf()", "frame.region@ == Region::Frame", "wf(self)"],
           ensures=["outlives(r)",
                    "(self is Str <==> r is Str) && (self is Array <==> r is Array) && (self is Host <==> r is Host) && (self is Number <==> r is Number) && (self is Bool <==> r is Bool) && (self is Null <==> r is Null)"],
           loops={1: {"invariant": ["pool.wf()", "frame.region@ == Region::Frame", "promoted.store@ == Region::Persist",
                                    "forall|i: int| 0 <= i < promoted.items@.len() ==> outlives(#[trigger] promoted.items@[i])",
                                    "forall|i: int| 0 <= i < vstd::std_specs::iter::IteratorSpec::remaining(&it.iter).len() ==> wf(#[trigger] vstd::std_specs::iter::IteratorSpec::remaining(&it.iter)[i])"]}},
           rewrites=[Rw("R8", r"Vec::with_capacity_in\(", "ArrV::with_capacity_in(", min_matches=1),
                     Rw("R10", r"for item in items", "for item in it: items", min_matches=1)],   # names Verus's ghost iterator for the invariant
           attrs="#[verifier::exec_allows_no_decreases_clause]\n",
           vacuity="-", real_name="Value::promote"),
        Fn("clone_into", label="value_clone_into", impl="impl Value",
           sig="pub fn clone_into(&self, arena: &ArenaM) -> (r: Value)",
           expect_sig=r"fn clone_into\(&self, arena: &'a Arena\) -> Self",
           requires=["wf(*self)"],
           ensures=["fresh_in(r, arena.region@)"],
           loops={1: {"invariant": ["new.store@ == arena.region@", "forall|i: int| 0 <= i < new.items@.len() ==> fresh_in(#[trigger] new.items@[i], arena.region@)",
                                    "forall|i: int| 0 <= i < vstd::std_specs::iter::IteratorSpec::remaining(&it.iter).len() ==> wf(*(#[trigger] vstd::std_specs::iter::IteratorSpec::remaining(&it.iter)[i]))"]}},
           rewrites=[Rw("R8", r"Vec::with_capacity_in\(", "ArrV::with_capacity_in(", min_matches=1),
                     Rw("R10", r"for item in items", "for item in it: items", min_matches=1),
                     Rw("R8", r"ArenaString::from_str\(arena, s\)", "SBuf::from_str(arena, s)", min_matches=1)],
           attrs="#[verifier::exec_allows_no_decreases_clause]\n",
           vacuity="-", real_name="Value::clone_into"),
        Raw("}"),
        Fn("relocate_return_value", impl="impl Runtime",
           sig="fn relocate_return_value(me: &mut Rt, val: Value, frame_offset: usize) -> (r: Value)",
           expect_sig=r"fn relocate_return_value\(&self, val: Value<'a>, frame_offset: usize\) -> Value<'a>",
           requires=["old(me).wf()", "ret_wf(val)"],
           ensures=["final(me).frame.epoch@ == old(me).frame.epoch@ + 1",            # the frame is reset exactly once, on every path
                    "survives(r, final(me).frame.epoch@)"],
           rewrites=[Rw("R5", r"!std::ptr::eq\(s\.arena\(\), self\.arena\)", "!s.in_arena(&me.arena)", min_matches=1),
                     Rw("R8", r"self\.arena\.offset\(\)", "me.arena.offset()", min_matches=1),
                     Rw("R8", r"ArenaString::from_str\(self\.(arena|frame), (\w+)\.as_str\(\)\)", r"SBuf::from_str(&me.\1, &\2)", min_matches=2),
                     Rw("R8", r"drop\((s|staged)\);", r"drop_sbuf(\1);", min_matches=2),
                     Rw("R3", r"unsafe \{ self\.(frame|arena)\.reset\((\w+)\) \};", r"me.\1.reset(\2);", min_matches=4),
                     Rw("R9", r"val\.promote\(&self\.pool, self\.frame\)", "val.promote(&me.pool, &me.frame)", min_matches=1)],
           vacuity="-", real_name="Runtime::relocate_return_value"),
        # binding an argument to a parameter: a borrowed view of a pool slot gets its own slot (the caller may overwrite the owner while
        # the callee runs), and an array / host value is promoted when a frame is active (it can grow inside a loop of the callee,
        # whose iterations reset the frame) -- fix 0c46f42
        Block("bind_parameter", within="eval_function_call", impl="impl Runtime",
              anchor=r"let arg = match arg ",
              sig="fn bind_parameter(me: &Rt, arg: Value, has_frame: bool) -> (r: Value)",
              prologue="    let arg = match arg {", epilogue="    };\n    arg",
              requires=["me.wf()", "wf(arg)"],
              ensures=["r matches Value::Str(ArenaCow::Borrowed(s)) ==> s.region@ != Region::Pool",
                       "has_frame && (r is Array || r is Host) ==> outlives(r)"],
              rewrites=[Rw("R5", r"self\.pool\.contains\(s\.as_ptr\(\)\)", "me.pool.contains_ref(&s)", min_matches=1),
                        Rw("R8", r"self\.pool\.alloc_str\(s\)", "me.pool.alloc_str(&s)", min_matches=1),
                        Rw("R9", r"arg\.promote\(&self\.pool, self\.frame\)", "arg.promote(&me.pool, &me.frame)", min_matches=1)],
              expand_or_guards=1,
              real_name="Runtime::eval_function_call (argument -> parameter binding)"),
    ],
)
