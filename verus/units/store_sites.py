import sys, pathlib
sys.path.insert(0, str(pathlib.Path(__file__).resolve().parent.parent))
from vlib.vextract import VUnit, Fn, Const, Raw, Rw, Enum, Block
from verus.units.eval_methods import PRE, ARGS, ARG_EVAL, ERR

STORE = r'''
// ---------------------------------------------------------------------------------------------------------------------
// Store discipline.  While a frame arena is active (inside a function call / loop iteration) freshly computed values may live in
// it, and it is reset at the end of the iteration / call.  Anything written to a place that survives that reset -- a variable slot,
// an array element, the output list -- must first go through Value::promote, whose result has no part in the frame arena.
// outlives(v): no part of v lives in the frame arena.  The contract of Value::promote is `ensures outlives(result)`
// (proved for the real Value::promote, arrays and host values included, by unit residence; string bytes by K:runtime:cow_promote__contract).
// ---------------------------------------------------------------------------------------------------------------------
pub uninterp spec fn heap_outlives(v: Value) -> bool;
pub open spec fn outlives(v: Value) -> bool {
    match v { Value::Number(_) | Value::Bool(_) | Value::Null => true, _ => heap_outlives(v) }   // scalars own no memory
}
pub struct Rt { pub has_frame: bool }
impl Rt {
    // `!std::ptr::eq(self.frame, self.arena)`
    #[verifier::external_body]
    pub fn has_frame_arena(&self) -> (r: bool) ensures r == self.has_frame { unimplemented!() }
}
#[verifier::external_body]
fn promote(v: Value) -> (r: Value) ensures outlives(r) { unimplemented!() }
// the store itself: `scope.push(LocalSlot{..value})`, `ArrayBuiltin::push(array, value)`, `self.output.push(v)`, the element store of assign_index
#[verifier::external_body]
fn store(has_frame: bool, v: Value) requires has_frame ==> outlives(v) { unimplemented!() }
#[verifier::external_body]
fn store_at_indices(has_frame: bool, v: Value) -> (r: Result<(), RtErr>) requires has_frame ==> outlives(v) { unimplemented!() }
#[verifier::external_body]
fn return_to_pool(v: &Value) { unimplemented!() }
#[verifier::external_body]
fn fallible_step() -> (r: Result<(), RtErr>) { unimplemented!() }
#[verifier::external_body]
fn replace_slot(slot: &mut Value, v: Value) -> (old_v: Value) ensures *final(slot) == v, old_v == *old(slot) { unimplemented!() }
'''

PROMOTE = Rw("R9", r"(\w+)\.promote\(&self\.pool, self\.frame\)|(\w+)\.promote\(pool, frame\)", r"promote(\1\2)", min_matches=1)
HAS = Rw("R9", r"self\.has_frame_arena\(\)", "me.has_frame_arena()", min_matches=1)

UNIT = VUnit(
    name="store_sites",
    props=["C02", "C05"],
    source="src/runtime.rs",
    preamble=PRE,
    trusted=["Value::promote is used through its contract `ensures outlives(result)`, which unit residence proves for the real body (all value types, region model) and K:runtime:cow_promote__contract for string bytes",
             "the stores are shims whose precondition is the residence requirement; the element-store loop of assign_index is cut out as one opaque call (R11) carrying that precondition",
             "when no frame arena is active (`frame` is the persistent arena itself) there is nothing to outlive"],
    items=[
        Enum("StringBuiltin", source="src/builtins/string.rs"),
        Enum("ArrayBuiltin", source="src/builtins/array.rs"),
        Enum("NumberBuiltin", source="src/builtins/number.rs"),
        Enum("ProcessCommandBuiltin", source="src/builtins/process.rs"),
        Enum("ProcessResultBuiltin", source="src/builtins/process.rs"),
        Enum("MemberBuiltin", source="src/builtins/mod.rs"),
        Enum("HostValue", source="src/process.rs", derive="", rewrites=[Rw("R12", r"ProcessCommand<'a>", "CmdV"), Rw("R12", r"ProcessResult<'a>", "ResV")]),
        Enum("Value", derive="", rewrites=[
            Rw("R12", r"ArenaCow<'a>", "StrV"), Rw("R12", r"Vec<Value<'a>, &'a Arena>", "ArrV"), Rw("R12", r"HostHandle<'a>", "HostV"),
        ]),
        Raw(ARGS), Raw(STORE),
        Fn("overwrite_slot", impl="impl Runtime",
           sig="fn overwrite_slot(slot: &mut Value, val: Value, has_frame: bool)",
           expect_sig=r"fn overwrite_slot\(\s*slot: &mut Value<'a>,\s*val: Value<'a>,\s*has_frame: bool,\s*pool: &PoolSet<'a>,\s*frame: &Arena,?\s*\)",
           ensures=["has_frame ==> outlives(*final(slot))", "!has_frame ==> *final(slot) == val"],
           rewrites=[Rw("R9", r"mem::replace\(slot, Value::Null\)", "replace_slot(slot, Value::Null)"),
                     Rw("R3", r"unsafe \{ old\.return_to_pool\(pool\) \};", "return_to_pool(&old);"), PROMOTE],
           vacuity="-", real_name="Runtime::overwrite_slot (any value type)"),
        Block("define_var_new_slot", within="define_var", impl="impl Runtime",
              anchor=r"Self::overwrite_slot\(&mut slot\.value, val, has_frame, &self\.pool, self\.frame\);\s*\} else ",
              sig="fn define_var_new_slot(val: Value, has_frame: bool)",
              rewrites=[PROMOTE, Rw("R8", r"scope\.push\(LocalSlot \{ id: None, name, value \}\);", "store(has_frame, value);")],
              real_name="Runtime::define_var (new slot branch)"),
        Block("define_bound_local_new_slot", within="define_bound_local", impl="impl Runtime",
              anchor=r"Self::overwrite_slot\(&mut slot\.value, val, has_frame, &self\.pool, self\.frame\);\s*\} else ",
              sig="fn define_bound_local_new_slot(val: Value, has_frame: bool)",
              rewrites=[PROMOTE, Rw("R8", r"scope\.push\(LocalSlot \{ id: Some\(local\), name, value \}\);", "store(has_frame, value);")],
              real_name="Runtime::define_bound_local (new slot branch)"),
        Fn("eval_array_member_call_mut", impl="impl Runtime",
           sig="fn eval_array_member_call_mut(me: &Rt, builtin: ArrayBuiltin, args: &Args) -> (res: Result<Value, RtErr>)",
           expect_sig=r"fn eval_array_member_call_mut\(\s*&mut self,\s*receiver: ExprRef<'a>,\s*builtin: ArrayBuiltin,\s*field: &'a str,\s*args: &'a ArgList<'a>,\s*span: Span,?\s*\) -> Result<Value<'a>, RuntimeError>",
           requires=["array_mut(builtin)", "args.n() == array_arity(builtin)"],
           rewrites=[ARG_EVAL, HAS, PROMOTE,
                     Rw("R9", r"let array = self\.get_mutable_array\(receiver, span, field\)\?;", "get_mut_receiver()?;", min_matches=3),
                     Rw("R8", r"ArrayBuiltin::push\(array, value\);", "store(me.has_frame, value);", min_matches=1),
                     Rw("R13", r"ArrayBuiltin::reverse\(array\);", "", min_matches=1),
                     Rw("R12", r"Ok\(ArrayBuiltin::pop\(array\)\.unwrap_or\(Value::Null\)\)", "Ok(unk())", min_matches=1)],
           vacuity="me: &Rt, builtin: ArrayBuiltin, args: &Args",
           real_name="Runtime::eval_array_member_call_mut (push stores a promoted value)"),
        Fn("assign_index", impl="impl Runtime",
           sig="fn assign_index(me: &Rt, value: Value) -> (res: Result<(), RtErr>)",
           expect_sig=r"fn assign_index\(\s*&mut self,\s*target: ExprRef<'a>,\s*value: Value<'a>,\s*span: Span,?\s*\) -> Result<\(\), RuntimeError>",
           rewrites=[Rw("R9", r"let \(base_expr, base_var, index_exprs\) = self\s*\.flatten_index_target\(target\)\s*\.ok_or_else\([^;]*\)\?;", "fallible_step()?;"),
                     Rw("R13", r"let mut evaluated_indices = Vec::with_capacity_in\(index_exprs\.len\(\), self\.frame\);", ""),
                     Rw("R11", r"for \(index_expr, index_span\) in &index_exprs \{.*?\n        \}", "fallible_step()?;"),
                     HAS, PROMOTE,
                     Rw("R9", r"let mut slot = if let Some\(local\) = self\.bound_expr_local\(base_expr\) \{.*?\.ok_or_else\([^;]*\)\?;", "fallible_step()?;"),
                     Rw("R11", r"for \(i, \(idx, index_span\)\) in evaluated_indices\.iter\(\)\.enumerate\(\) \{.*?\n        \}\n", "return store_at_indices(me.has_frame, value);\n")],
           vacuity="-", real_name="Runtime::assign_index (the stored element is promoted)"),
        Block("shout_output", within="eval_builtin_call", impl="impl Runtime",
              anchor=r"GlobalBuiltin::Shout => ",
              sig="fn shout_output(me: &Rt, arg0: Value) -> (res: Result<Value, RtErr>)",
              rewrites=[Rw("R11b", r"let argv = mem::replace\(&mut arg_values\[0\], Value::Null\);", "let argv = arg0;"),
                        Rw("R13", r"GlobalBuiltin::shout\(&argv\);", ""), HAS, PROMOTE,
                        Rw("R8", r"self\.output\.push\(argv\);", "store(me.has_frame, argv);")],
              real_name="Runtime::eval_builtin_call (shout: the recorded output value is promoted)"),
    ],
)
