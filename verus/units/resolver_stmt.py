import sys, pathlib
sys.path.insert(0, str(pathlib.Path(__file__).resolve().parent.parent))
from vlib.vextract import VUnit, Fn, Const, Raw, Rw, Enum, Block, Struct

PRE = r'''
pub struct Name { pub id: Ghost<int> }
pub struct ExprH { pub id: Ghost<int> }
pub struct BlockH { pub id: Ghost<int> }
#[derive(Clone, Copy)] pub struct LocalId { pub g: Ghost<int> }
pub struct SlotH { pub i: Ghost<int> }
pub const DYNAMIC: u8 = 0;                                       // ValueType::Dynamic (types are opaque codes here)
pub uninterp spec fn slot_of(v: &Name) -> int;                   // the scope-table entry lookup finds for this name (innermost declaration)
pub uninterp spec fn ety(e: int) -> u8;                          // infer_expr_type(e), Dynamic when it has no answer
'''

MODEL = r'''
// --- check_block: the three scope stacks, hoisting, and which statements were checked
#[derive(Clone, Copy)] pub struct StmtH { pub id: Ghost<int> }
pub struct BlockS { pub id: Ghost<int>, pub stmts: Vec<StmtH> }
pub struct B {
    pub scope_depth: Ghost<nat>, pub var_depth: Ghost<nat>, pub fn_depth: Ghost<nat>,
    pub predeclared: Ghost<bool>, pub checked: Ghost<Seq<int>>,
}
pub open spec fn same_but(a: &B, b: &B) -> bool { a.predeclared@ == b.predeclared@ && a.checked@ == b.checked@ }
impl B {
    #[verifier::external_body] pub fn open_scope_facts(&mut self, b: &BlockS) ensures *final(self) == *old(self) { unimplemented!() }
    #[verifier::external_body] pub fn scope_push(&mut self) ensures final(self).scope_depth@ == old(self).scope_depth@ + 1, final(self).var_depth@ == old(self).var_depth@, final(self).fn_depth@ == old(self).fn_depth@, same_but(final(self), old(self)) { unimplemented!() }
    #[verifier::external_body] pub fn scope_pop(&mut self) requires old(self).scope_depth@ > 0 ensures final(self).scope_depth@ == old(self).scope_depth@ - 1, final(self).var_depth@ == old(self).var_depth@, final(self).fn_depth@ == old(self).fn_depth@, same_but(final(self), old(self)) { unimplemented!() }
    #[verifier::external_body] pub fn vars_push(&mut self) ensures final(self).var_depth@ == old(self).var_depth@ + 1, final(self).scope_depth@ == old(self).scope_depth@, final(self).fn_depth@ == old(self).fn_depth@, same_but(final(self), old(self)) { unimplemented!() }
    #[verifier::external_body] pub fn vars_pop(&mut self) requires old(self).var_depth@ > 0 ensures final(self).var_depth@ == old(self).var_depth@ - 1, final(self).scope_depth@ == old(self).scope_depth@, final(self).fn_depth@ == old(self).fn_depth@, same_but(final(self), old(self)) { unimplemented!() }
    #[verifier::external_body] pub fn fns_push(&mut self) ensures final(self).fn_depth@ == old(self).fn_depth@ + 1, final(self).scope_depth@ == old(self).scope_depth@, final(self).var_depth@ == old(self).var_depth@, same_but(final(self), old(self)) { unimplemented!() }
    #[verifier::external_body] pub fn fns_pop(&mut self) requires old(self).fn_depth@ > 0 ensures final(self).fn_depth@ == old(self).fn_depth@ - 1, final(self).scope_depth@ == old(self).scope_depth@, final(self).var_depth@ == old(self).var_depth@, same_but(final(self), old(self)) { unimplemented!() }
    // hoisting: the block's functions are declared in the block's own (just pushed) function scope, before any statement is checked
    #[verifier::external_body] pub fn predeclare_block_functions(&mut self, b: &BlockS)
        requires old(self).checked@.len() == 0
        ensures final(self).predeclared@, final(self).scope_depth@ == old(self).scope_depth@, final(self).var_depth@ == old(self).var_depth@, final(self).fn_depth@ == old(self).fn_depth@, final(self).checked@ == old(self).checked@ { unimplemented!() }
    // check_stmt leaves the three stacks as it found them
    #[verifier::external_body] pub fn check_stmt(&mut self, s: &StmtH)
        requires old(self).predeclared@
        ensures final(self).checked@ == old(self).checked@.push(s.id@), final(self).predeclared@, final(self).scope_depth@ == old(self).scope_depth@, final(self).var_depth@ == old(self).var_depth@, final(self).fn_depth@ == old(self).fn_depth@ { unimplemented!() }
}

// --- the binding records a name use leaves behind: which local a Var node / a {placeholder} refers to, and the reads liveness sees
pub uninterp spec fn found(v: &Name) -> Option<int>;             // the local lookup_var_info finds for the name (innermost declaration: K under C04)
pub struct Gb {
    pub expr_binding: Ghost<Option<int>>,        // facts.record_expr_local(expr, local): the runtime resolves this node by id, not by name
    pub seg_binding: Ghost<Map<int, int>>,       // facts.record_string_segment_local(expr, segment, local)
    pub stmt_reads: Ghost<Set<int>>, pub cap_reads: Ghost<Set<int>>,
}
impl Gb {
    #[verifier::external_body]
    pub fn lookup_var_info(&self, v: &Name) -> (r: Option<(u8, LocalId)>) ensures (r is Some) == (found(v) is Some), r is Some ==> r->Some_0.1.g@ == found(v)->Some_0 { unimplemented!() }
    #[verifier::external_body]
    pub fn record_expr_local(&mut self, l: LocalId) ensures final(self).expr_binding@ == Some(l.g@), final(self).seg_binding@ == old(self).seg_binding@, final(self).stmt_reads@ == old(self).stmt_reads@, final(self).cap_reads@ == old(self).cap_reads@ { unimplemented!() }
    #[verifier::external_body]
    pub fn record_string_segment_local(&mut self, idx: u32, l: LocalId) ensures final(self).seg_binding@ == old(self).seg_binding@.insert(idx as int, l.g@), final(self).expr_binding@ == old(self).expr_binding@, final(self).stmt_reads@ == old(self).stmt_reads@, final(self).cap_reads@ == old(self).cap_reads@ { unimplemented!() }
    // record_stmt_read / record_capture_read decide by the local's owner WHERE the read is noted (statement facts or the function's
    // capture set); here only that each is told about the local
    #[verifier::external_body]
    pub fn record_stmt_read(&mut self, l: LocalId) ensures final(self).stmt_reads@ == old(self).stmt_reads@.insert(l.g@), final(self).expr_binding@ == old(self).expr_binding@, final(self).seg_binding@ == old(self).seg_binding@, final(self).cap_reads@ == old(self).cap_reads@ { unimplemented!() }
    #[verifier::external_body]
    pub fn record_capture_read(&mut self, l: LocalId) ensures final(self).cap_reads@ == old(self).cap_reads@.insert(l.g@), final(self).expr_binding@ == old(self).expr_binding@, final(self).seg_binding@ == old(self).seg_binding@, final(self).stmt_reads@ == old(self).stmt_reads@ { unimplemented!() }
}
// `u32::try_from(segment_idx).expect(..)`
#[verifier::external_body]
pub fn seg_index_u32(i: usize) -> (r: u32) requires i <= u32::MAX ensures r == i { unimplemented!() }

// Ghost record of what the resolver was asked to do while checking ONE statement
pub struct G {
    pub in_loop: u32,
    pub checked_exprs: Ghost<Set<int>>,          // expressions handed to check_expr
    pub bool_checked: Ghost<Set<int>>,           // ... and to check_boolean_expr
    pub blocks: Ghost<Seq<(int, int)>>,          // (block, loop depth at that moment) for every check_block call, in order
    pub types: Ghost<Map<int, u8>>,              // the static type recorded in each scope-table entry
}
impl G {
    pub uninterp spec fn declared(&self, v: &Name) -> bool;          // lookup_var_info(var) finds it (innermost scope wins: K obligation under C04)
    #[verifier::external_body]
    pub fn lookup_var_info(&self, v: &Name) -> (r: Option<(u8, LocalId)>) ensures r is Some == self.declared(v) { unimplemented!() }
    #[verifier::external_body]
    pub fn check_expr(&mut self, e: &ExprH) ensures final(self).checked_exprs@ == old(self).checked_exprs@.insert(e.id@), final(self).bool_checked@ == old(self).bool_checked@, final(self).blocks@ == old(self).blocks@, final(self).in_loop == old(self).in_loop, final(self).types@ == old(self).types@, forall|v: &Name| final(self).declared(v) == old(self).declared(v) { unimplemented!() }
    // the entry of the innermost declaration of the name, as `variable_scopes.iter_mut().rev().find_map(.. .rev().find(name == var))` finds it
    #[verifier::external_body]
    pub fn find_slot(&self, v: &Name) -> (r: Option<SlotH>) ensures r is Some == self.declared(v), r is Some ==> r->Some_0.i@ == slot_of(v) { unimplemented!() }
    #[verifier::external_body]
    pub fn slot_type(&self, s: &SlotH) -> (r: u8) ensures r == self.types@[s.i@] { unimplemented!() }
    #[verifier::external_body]
    pub fn set_slot_type(&mut self, s: &SlotH, t: u8) ensures final(self).types@ == old(self).types@.insert(s.i@, t), final(self).checked_exprs@ == old(self).checked_exprs@, final(self).bool_checked@ == old(self).bool_checked@, final(self).blocks@ == old(self).blocks@, final(self).in_loop == old(self).in_loop { unimplemented!() }
    #[verifier::external_body]
    pub fn infer_or_dynamic(&self, e: &ExprH) -> (r: u8) ensures r == ety(e.id@) { unimplemented!() }
    #[verifier::external_body]
    pub fn check_boolean_expr(&mut self, e: &ExprH) ensures final(self).bool_checked@ == old(self).bool_checked@.insert(e.id@), final(self).checked_exprs@ == old(self).checked_exprs@, final(self).blocks@ == old(self).blocks@, final(self).in_loop == old(self).in_loop { unimplemented!() }
    // check_block restores the loop depth it found (its own frame; check_function_body's frame is K:resolver:check_function_body__contract)
    #[verifier::external_body]
    pub fn check_block(&mut self, b: &BlockH) ensures final(self).blocks@ == old(self).blocks@.push((b.id@, old(self).in_loop as int)), final(self).in_loop == old(self).in_loop, final(self).checked_exprs@ == old(self).checked_exprs@, final(self).bool_checked@ == old(self).bool_checked@ { unimplemented!() }
}
'''
DROP = Rw("R13", r"self\.facts\.record_stmt_local\(stmt, local_id\);|self\.record_stmt_write\(local_id\);|self\.record_capture_write\(local_id\);|self\.set_stmt_expr_class\([^;]*\);", "", min_matches=1)
CALLS = Rw("R9", r"self\.(check_expr|check_boolean_expr|check_block|lookup_var_info)\(", r"g.\1(", min_matches=1)

UNIT = VUnit(
    name="resolver_stmt",
    props=["C09", "C04", "C03"],
    source="src/resolver.rs",
    preamble=PRE,
    trusted=["the resolver is a ghost record of the calls made while checking one statement; check_expr / check_boolean_expr / check_block / lookup_var_info are shims stating what each records",
             "facts recording and effect classification are dropped (R13)"],
    items=[
        Raw(MODEL),
        # `x get e`: AssignmentToUndeclared exactly when no x is in scope; e is checked either way
        Block("assign_existing", within="check_stmt", impl="impl Resolver", arm=True,
              anchor=r"Stmt::AssignExisting \{ var, var_span, expr, \.\. \} =>",
              sig="fn assign_existing(g: &mut G, var: &Name, expr: &ExprH) -> (err: bool)",
              prologue="    let mut e_AssignmentToUndeclared = false;", epilogue="    ;\n    e_AssignmentToUndeclared",
              ensures=["err == !old(g).declared(var)", "final(g).checked_exprs@.contains(expr.id@)",
                       # no false rejection later (C09): after the assignment the recorded type is the type of the value just assigned, or
                       # Dynamic; it never stays a type the variable no longer has.  Every other entry is untouched.
                       "old(g).declared(var) ==> final(g).types@ == (if old(g).types@[slot_of(var)] == ety(expr.id@) { old(g).types@ } else { old(g).types@.insert(slot_of(var), DYNAMIC) })",
                       "old(g).declared(var) ==> final(g).types@[slot_of(var)] == ety(expr.id@) || final(g).types@[slot_of(var)] == DYNAMIC",
                       "!old(g).declared(var) ==> final(g).types@ == old(g).types@"],
              rewrites=[CALLS, DROP, Rw("R6", r"self\.emit_error\(\s*\*var_span,\s*SemanticError::(\w+),.*?\}\],\s*\);?", r"{ e_\1 = true; }", min_matches=1),
                        Rw("R9", r"self\.infer_expr_type\(expr\)\.unwrap_or\(ValueType::Dynamic\)", "g.infer_or_dynamic(expr)", min_matches=0),
                        Rw("R9", r"self\s*\.variable_scopes\s*\.iter_mut\(\)\s*\.rev\(\)\s*\.find_map\(\|scope\| scope\.iter_mut\(\)\.rev\(\)\.find\(\|\(name, \.\.\)\| \*name == \*var\)\)", "g.find_slot(var)", min_matches=0),
                        Rw("R9", r"slot\.1 != assigned", "g.slot_type(&slot) != assigned", min_matches=0),
                        # Verus has no let-chains: `if let P = E && C { B }` (no else) -> `if let P = E { if C { B } }`
                        Rw("R10", r"if let (Some\(slot\)) = (g\.find_slot\(var\))\s*&& ([^{]+?)\s*\{(.*?)\n                \}", r"if let \1 = \2 { if \3 {\4\n                } }", min_matches=0),
                        Rw("R9", r"slot\.1 = ([^;]+);", r"g.set_slot_type(&slot, \1);", min_matches=0),
                        Rw("R12", r"ValueType::Dynamic", "DYNAMIC", min_matches=0)],
              real_name="Resolver::check_stmt (Stmt::AssignExisting arm)"),
        # if: the condition is checked and held to the boolean rule, the then-block is checked, and the else-block exactly when there is one,
        # all at the loop depth of the if itself
        Block("if_stmt", within="check_stmt", impl="impl Resolver", arm=True,
              anchor=r"Stmt::If \{ cond, then_b, else_b, \.\. \} =>",
              sig="fn if_stmt(g: &mut G, cond: &ExprH, then_b: &BlockH, else_b: &Option<&BlockH>)",
              requires=["old(g).blocks@.len() == 0"],
              ensures=["final(g).checked_exprs@.contains(cond.id@) && final(g).bool_checked@.contains(cond.id@)",
                       "final(g).in_loop == old(g).in_loop",
                       "final(g).blocks@ =~= (if *else_b is Some { seq![(then_b.id@, old(g).in_loop as int), ((*else_b)->Some_0.id@, old(g).in_loop as int)] } else { seq![(then_b.id@, old(g).in_loop as int)] })"],
              rewrites=[CALLS, DROP],
              real_name="Resolver::check_stmt (Stmt::If arm)"),
        # jasi: the condition is checked and held to the boolean rule; the body -- and only the body -- is checked one loop level deeper
        # (so comot / next are accepted inside it: K:resolver:control_flow_statements__leaf_rules), and the depth is restored
        Block("loop_stmt", within="check_stmt", impl="impl Resolver", arm=True,
              anchor=r"Stmt::Loop \{ cond, body, \.\. \} =>",
              sig="fn loop_stmt(g: &mut G, cond: &ExprH, body: &BlockH)",
              requires=["old(g).blocks@.len() == 0", "old(g).in_loop < u32::MAX"],
              ensures=["final(g).checked_exprs@.contains(cond.id@) && final(g).bool_checked@.contains(cond.id@)",
                       "final(g).in_loop == old(g).in_loop",
                       "final(g).blocks@ =~= seq![(body.id@, old(g).in_loop as int + 1)]"],
              rewrites=[CALLS, DROP, Rw("R2", r"self\.in_loop", "g.in_loop", min_matches=2)],
              real_name="Resolver::check_stmt (Stmt::Loop arm)"),
        # a variable reference: UndeclaredIdentifier exactly when no such variable is in scope
        Block("var_use", within="check_expr", impl="impl Resolver", arm=True,
              anchor=r"Expr::Var\(v, span\) =>",
              sig="fn var_use(g: &mut G, v: &Name) -> (err: bool)",
              prologue="    let mut e_UndeclaredIdentifier = false;", epilogue="    ;\n    e_UndeclaredIdentifier",
              ensures=["err == !old(g).declared(v)"],
              rewrites=[CALLS, Rw("R13", r"self\.facts\.record_expr_local\(expr, local_id\);|self\.record_stmt_read\(local_id\);|self\.record_capture_read\(local_id\);", "", min_matches=3),
                        Rw("R6", r"self\.emit_error\(\s*\*span,\s*SemanticError::(\w+),.*?\}\],\s*\);?", r"{ e_\1 = true; }", min_matches=1)],
              real_name="Resolver::check_expr (Expr::Var arm)"),
        # the same arm, for what it RECORDS (C04 / C03): the node is bound to exactly the local the lookup finds (the runtime then resolves it
        # by id and cannot pick up a same-named variable of a caller), and both read recorders are told about that local
        Block("var_binding", within="check_expr", impl="impl Resolver", arm=True,
              anchor=r"Expr::Var\(v, span\) =>",
              sig="fn var_binding(g: &mut Gb, v: &Name) -> (err: bool)",
              prologue="    let mut e_UndeclaredIdentifier = false;", epilogue="    ;\n    e_UndeclaredIdentifier",
              ensures=["err == (found(v) is None)",
                       "found(v) is Some ==> final(g).expr_binding@ == Some(found(v)->Some_0) && final(g).stmt_reads@.contains(found(v)->Some_0) && final(g).cap_reads@.contains(found(v)->Some_0)",
                       "found(v) is None ==> final(g).expr_binding@ == old(g).expr_binding@"],
              rewrites=[Rw("R9", r"self\.lookup_var_info\(", "g.lookup_var_info(", min_matches=1),
                        Rw("R9", r"self\.facts\.record_expr_local\(expr, local_id\);", "g.record_expr_local(local_id);", min_matches=0),
                        Rw("R9", r"self\.facts\.record_string_segment_local\(\s*expr,\s*u32::try_from\(segment_idx\)\s*\.expect\(\"string segment index should fit in u32\"\),\s*local_id,?\s*\);", "g.record_string_segment_local(seg_index_u32(segment_idx), local_id);", min_matches=0),
                        Rw("R9", r"self\.(record_stmt_read|record_capture_read)\(", r"g.\1(", min_matches=0),
                        Rw("R6", r"self\.emit_error\(\s*\*span,\s*SemanticError::(\w+),.*?\}\],\s*\);?", r"{ e_\1 = true; }", min_matches=1)],
              real_name="Resolver::check_expr (Expr::Var arm: binding and read records)"),
        # a {placeholder}: bound, by its segment index, to exactly the local the lookup finds -- for own AND outer variables alike -- and
        # both read recorders are told; UndeclaredIdentifier exactly when no such variable is in scope
        Block("placeholder_binding", within="check_expr", impl="impl Resolver",
              anchor=r"if let StringSegment::Variable\(var\) = segment ",
              sig="fn placeholder_binding(g: &mut Gb, var: &Name, segment_idx: usize) -> (err: bool)",
              prologue="    let mut e_UndeclaredIdentifier = false;", epilogue="    e_UndeclaredIdentifier",
              requires=["segment_idx <= u32::MAX"],
              ensures=["err == (found(var) is None)",
                       "found(var) is Some ==> final(g).seg_binding@.contains_key(segment_idx as int) && final(g).seg_binding@[segment_idx as int] == found(var)->Some_0 && final(g).stmt_reads@.contains(found(var)->Some_0) && final(g).cap_reads@.contains(found(var)->Some_0)",
                       "found(var) is None ==> final(g).seg_binding@ == old(g).seg_binding@"],
              rewrites=[Rw("R9", r"self\.lookup_var_info\(", "g.lookup_var_info(", min_matches=1),
                        Rw("R9", r"self\.facts\.record_expr_local\(expr, local_id\);", "g.record_expr_local(local_id);", min_matches=0),
                        Rw("R9", r"self\.facts\.record_string_segment_local\(\s*expr,\s*u32::try_from\(segment_idx\)\s*\.expect\(\"string segment index should fit in u32\"\),\s*local_id,?\s*\);", "g.record_string_segment_local(seg_index_u32(segment_idx), local_id);", min_matches=0),
                        Rw("R9", r"self\.(record_stmt_read|record_capture_read)\(", r"g.\1(", min_matches=0),
                        Rw("R6", r"self\.emit_error\(\s*\*span,\s*SemanticError::(\w+),.*?\}\],\s*\);?", r"{ e_\1 = true; }", min_matches=1)],
              real_name="Resolver::check_expr (Expr::String arm: one {placeholder})"),
        # a block: its three scopes (facts scope, variables, functions) are opened, the block's functions are hoisted into the NEW function
        # scope before any statement is checked (forward references), EVERY statement is checked, in order, and all three stacks are back
        # to their depth afterwards
        Fn("check_block", impl="impl Resolver",
           sig="fn check_block(b: &mut B, block: &BlockS)", expect_sig=r"fn check_block\(&mut self, block: BlockRef<'ast>\)",
           requires=["old(b).checked@.len() == 0", "!old(b).predeclared@"],
           ensures=["final(b).scope_depth@ == old(b).scope_depth@ && final(b).var_depth@ == old(b).var_depth@ && final(b).fn_depth@ == old(b).fn_depth@",
                    "final(b).checked@ =~= block.stmts@.map_values(|s: StmtH| s.id@)"],
           loops={1: {"invariant": ["b.predeclared@", "b.scope_depth@ == old(b).scope_depth@ + 1", "b.var_depth@ == old(b).var_depth@ + 1", "b.fn_depth@ == old(b).fn_depth@ + 1",
                                    "b.checked@ =~= block.stmts@.subrange(0, it.index@).map_values(|s: StmtH| s.id@)",
                                    "it.index@ <= block.stmts@.len()", "vstd::std_specs::iter::IteratorSpec::remaining(&it.iter).len() + it.index@ == block.stmts@.len()",
                                    "forall|i: int| 0 <= i < block.stmts@.len() - it.index@ ==> *(#[trigger] vstd::std_specs::iter::IteratorSpec::remaining(&it.iter)[i]) == block.stmts@[it.index@ + i]"]}},
           rewrites=[Rw("R13", r"let scope_id =\s*self\.facts\.push_scope\([^;]*\);\s*self\.facts\.record_block_scope\(block, scope_id\);\s*if self\.scope_stack\.is_empty\(\) && self\.current_owner == self\.facts\.root_function \{\s*self\.facts\.set_root_scope\(scope_id\);\s*\}", "b.open_scope_facts(block);", min_matches=1),
                     Rw("R8", r"self\.scope_stack\.push\(scope_id\);", "b.scope_push();", min_matches=1),
                     Rw("R8", r"self\.variable_scopes\.push\(Vec::new_in\(self\.arena\)\);", "b.vars_push();", min_matches=1),
                     Rw("R8", r"self\.function_scopes\.push\(Vec::new_in\(self\.arena\)\);", "b.fns_push();", min_matches=1),
                     Rw("R8", r"self\.variable_scopes\.pop\(\);", "b.vars_pop();", min_matches=1),
                     Rw("R8", r"self\.function_scopes\.pop\(\);", "b.fns_pop();", min_matches=1),
                     Rw("R8", r"self\.scope_stack\.pop\(\);", "b.scope_pop();", min_matches=1),
                     Rw("R9", r"self\.(predeclare_block_functions|check_stmt)\(", r"b.\1(", min_matches=2),
                     Rw("R10", r"for &stmt in block\.stmts", "for stmt in it: block.stmts.iter()", min_matches=1)],
           vacuity="-", real_name="Resolver::check_block"),
    ],
)
