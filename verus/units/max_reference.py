import sys, pathlib
sys.path.insert(0, str(pathlib.Path(__file__).resolve().parent.parent))
from vlib.vextract import VUnit, Fn, Const, Raw, Rw, Enum, Block, Struct

PRE = r'''
#[derive(Clone, Copy)] pub struct FunctionId(pub u32);
#[derive(Clone, Copy)] pub struct LocalId(pub u32);
pub struct IdSet { pub s: Ghost<Set<int>> }        // a Vec<LocalId> read as a set
'''

MODEL = r'''
pub struct Summary { pub available: bool, pub transitive_capture_reads: IdSet, pub transitive_capture_writes: IdSet }
pub struct StmtFacts { pub function: FunctionId }
// max_stmt: for every local, the largest statement id that may still reference it (u32::MAX-like sentinel = never referenced)
pub struct MaxStmt { pub noted: Ghost<Set<int>> }    // the locals for which THIS statement has been noted as a possible reference
pub struct Facts { pub owned: Ghost<Set<int>> }      // the locals owned by the statement's function (facts.locals[l].owner == stmt_facts.function)
pub struct Summaries { pub g: Ghost<int> }
impl Summaries {
    pub uninterp spec fn of(&self, callee: FunctionId) -> Summary;
    #[verifier::external_body]
    pub fn get(&self, callee: FunctionId) -> (r: &Summary) ensures *r == self.of(callee) { unimplemented!() }
}
// R11: the three loops of the callee arm, each `for .. { note_max_reference(&mut max_stmt, local, stmt_id) }` over one collection
#[verifier::external_body]
fn note_all_locals_of_function(max_stmt: &mut MaxStmt, facts: &Facts)
    ensures final(max_stmt).noted@ == old(max_stmt).noted@.union(facts.owned@)
{ unimplemented!() }
#[verifier::external_body]
fn note_owned(max_stmt: &mut MaxStmt, facts: &Facts, set: &IdSet)
    ensures final(max_stmt).noted@ == old(max_stmt).noted@.union(set.s@.intersect(facts.owned@))
{ unimplemented!() }
'''

LOOP = r"for &local in &summary\.(transitive_capture_reads|transitive_capture_writes) \{\s*if facts\.locals\[local\.0 as usize\]\.owner == stmt_facts\.function \{\s*note_max_reference\(&mut max_stmt, local, stmt_id\);\s*\}\s*\}"

UNIT = VUnit(
    name="max_reference",
    props=["C03"],
    source="src/analysis/opt.rs",
    preamble=PRE,
    trusted=["each inner loop `for local in <collection> { if owned { note_max_reference(..) } }` is cut out as ONE opaque call stating that every owned local of that collection is noted (R11); what is decided is that the arm covers BOTH the callee's transitive capture reads and its transitive capture writes, and every local of the function when the summary is unavailable",
             "note_max_reference itself (keeps the maximum) is a Kani obligation (K:opt:max_reference)"],
    items=[
        Raw(MODEL),
        # a call statement may reference, through its callee, every local of the enclosing function that the callee transitively reads
        # OR writes through captures; with no summary available, every local of the function.  A declaration is removable only after the
        # last statement noted here, so a set left out makes a live declaration removable.
        Block("note_callee_references", within="compute_max_local_reference_stmt", impl=None,
              anchor=r"for &callee in &stmt_facts\.direct_callees ",
              sig="fn note_callee_references(callee: FunctionId, summaries: &Summaries, facts: &Facts, stmt_facts: &StmtFacts, max_stmt0: MaxStmt, stmt_id: u32) -> (max_stmt: MaxStmt)",
              prologue="    let mut max_stmt = max_stmt0;", epilogue="    max_stmt",
              ensures=["max_stmt0.noted@.subset_of(max_stmt.noted@)",
                       "!summaries.of(callee).available ==> facts.owned@.subset_of(max_stmt.noted@)",
                       "summaries.of(callee).available ==> summaries.of(callee).transitive_capture_reads.s@.intersect(facts.owned@).subset_of(max_stmt.noted@)",
                       "summaries.of(callee).available ==> summaries.of(callee).transitive_capture_writes.s@.intersect(facts.owned@).subset_of(max_stmt.noted@)"],
              rewrites=[Rw("R9", r"&summaries\[callee\.0 as usize\]", "summaries.get(callee)", min_matches=1),
                        Rw("R11", r"for local_idx in facts\.local_range\(stmt_facts\.function\) \{\s*note_max_reference\(\s*&mut max_stmt,\s*crate::analysis::ids::LocalId\(local_idx\),\s*stmt_id,\s*\);\s*\}", "note_all_locals_of_function(&mut max_stmt, facts);", min_matches=0),
                        Rw("R11", LOOP, r"note_owned(&mut max_stmt, facts, &summary.\1);", min_matches=0),
                        Rw("R11b", r"continue;", "return max_stmt;", min_matches=0)],
              real_name="opt::compute_max_local_reference_stmt (body of the callee loop)"),
    ],
)
