import sys, pathlib
sys.path.insert(0, str(pathlib.Path(__file__).resolve().parent.parent))
from vlib.vextract import VUnit, Fn, Const, Raw, Rw, Enum, Block

SPEC = r'''
// ---------------------------------------------------------------------------------------------------------------------
// The documented operator table (property C01's list: IEEE arithmetic on numbers, string concatenation with strings and numbers,
// comparisons between values of one type or with null, boolean and/or with null as falsy), over RUNTIME types ...
// ---------------------------------------------------------------------------------------------------------------------
pub open spec fn is_num(t: ValueType) -> bool { t == ValueType::Number }
pub open spec fn is_str(t: ValueType) -> bool { t == ValueType::String }
pub open spec fn boolish(t: ValueType) -> bool { t == ValueType::Bool || t == ValueType::Null }
pub open spec fn dynamic(t: ValueType) -> bool { t == ValueType::Dynamic }

pub open spec fn rt_ok(op: BinaryOp, a: ValueType, b: ValueType) -> bool {
    match op {
        BinaryOp::Add => (is_num(a) || is_str(a)) && (is_num(b) || is_str(b)),
        BinaryOp::Minus | BinaryOp::Times | BinaryOp::Divide | BinaryOp::Mod => is_num(a) && is_num(b),
        BinaryOp::Eq | BinaryOp::Gt | BinaryOp::Lt =>
            a == ValueType::Null || b == ValueType::Null || (a == b && (is_num(a) || is_str(a) || a == ValueType::Bool)),
        BinaryOp::And | BinaryOp::Or => boolish(a) && boolish(b),
    }
}
// ... lifted to STATIC types: an operand typed Dynamic may turn out to be any runtime type, so an expression is statically wrong
// exactly when NO choice of runtime types for its Dynamic operands makes the operator applicable.
pub open spec fn static_ok(op: BinaryOp, l: ValueType, r: ValueType) -> bool {
    match op {
        BinaryOp::Add => (is_num(l) || is_str(l) || dynamic(l)) && (is_num(r) || is_str(r) || dynamic(r)),
        BinaryOp::Minus | BinaryOp::Times | BinaryOp::Divide | BinaryOp::Mod => (is_num(l) || dynamic(l)) && (is_num(r) || dynamic(r)),
        BinaryOp::Eq | BinaryOp::Gt | BinaryOp::Lt =>
            l == ValueType::Null || r == ValueType::Null || dynamic(l) || dynamic(r) || (l == r && (is_num(l) || is_str(l) || l == ValueType::Bool)),
        BinaryOp::And | BinaryOp::Or => (boolish(l) || dynamic(l)) && (boolish(r) || dynamic(r)),
    }
}
// unary operators and the type an expression is given
pub open spec fn rt_ok_unary(op: UnaryOp, a: ValueType) -> bool {
    match op { UnaryOp::Not => boolish(a), UnaryOp::Minus => is_num(a) }
}
pub open spec fn static_ok_unary(op: UnaryOp, t: ValueType) -> bool { dynamic(t) || rt_ok_unary(op, t) }
pub open spec fn result_ty(op: BinaryOp, a: ValueType, b: ValueType) -> ValueType {
    match op {
        BinaryOp::Add => if is_num(a) && is_num(b) { ValueType::Number } else { ValueType::String },
        BinaryOp::Minus | BinaryOp::Times | BinaryOp::Divide | BinaryOp::Mod => ValueType::Number,
        _ => ValueType::Bool,
    }
}
pub open spec fn result_ty_unary(op: UnaryOp) -> ValueType { match op { UnaryOp::Not => ValueType::Bool, UnaryOp::Minus => ValueType::Number } }
// an inferred static type t covers a runtime type a
pub open spec fn covers(t: ValueType, a: ValueType) -> bool { dynamic(t) || t == a }
pub open spec fn fits(s: ValueType, a: ValueType) -> bool { !dynamic(a) && (dynamic(s) || s == a) }

// static_ok is exactly "some runtime instantiation is applicable" (so the table above is not an independent invention)
proof fn lemma_static_ok_is_existential(op: BinaryOp, l: ValueType, r: ValueType)
    ensures static_ok(op, l, r) == (exists|a: ValueType, b: ValueType| fits(l, a) && fits(r, b) && rt_ok(op, a, b)),
{
    if static_ok(op, l, r) {
        // witnesses: a Dynamic operand is instantiated with Null for comparisons, Number for arithmetic/add, Bool for and/or
        let pick = |s: ValueType, other: ValueType| -> ValueType {
            if !dynamic(s) { s } else {
                match op {
                    BinaryOp::Add | BinaryOp::Minus | BinaryOp::Times | BinaryOp::Divide | BinaryOp::Mod => ValueType::Number,
                    BinaryOp::Eq | BinaryOp::Gt | BinaryOp::Lt => ValueType::Null,
                    BinaryOp::And | BinaryOp::Or => ValueType::Bool,
                }
            }
        };
        let a = pick(l, r);
        let b = pick(r, l);
        assert(fits(l, a) && fits(r, b) && rt_ok(op, a, b));
    } else {
        assert forall|a: ValueType, b: ValueType| !(fits(l, a) && fits(r, b) && rt_ok(op, a, b)) by { }
    }
}
'''

UNIT = VUnit(
    name="static_rules",
    props=["C09"],
    source="src/resolver.rs",
    preamble="",
    trusted=["the arm's sub-expression checks and type inference (check_expr(lhs/rhs), infer_expr_type) are cut off: the block is verified as a function of the two inferred operand types",
             "emit_error(*span, TypeMismatch, ..) is reduced to `err = true` (R6)"],
    lemma_obligations=["lemma_static_ok_is_existential"],
    items=[
        Enum("ValueType", source="src/helpers.rs", derive="#[derive(Clone, Copy)]", eq=True),
        Enum("BinaryOp", source="src/syntax/parser.rs"),
        Enum("UnaryOp", source="src/syntax/parser.rs"),
        Raw(SPEC),
        Block("binary_operand_rule", within="check_expr", impl="impl Resolver",
              anchor=r"Expr::Binary \{ op, lhs, rhs, span \} =>",
              sig="fn binary_operand_rule(op: BinaryOp, l: Option<ValueType>, r: Option<ValueType>) -> (err: bool)",
              prologue="    let mut err = false;",
              epilogue="    err",
              # a binary expression over typed operands is rejected exactly when its operand types are statically wrong
              ensures=["(l is Some && r is Some) ==> err == !static_ok(op, l->Some_0, r->Some_0)"],
              rewrites=[
                  Rw("R11b", r"self\.check_expr\(lhs\);\s*self\.check_expr\(rhs\);\s*let l = self\.infer_expr_type\(lhs\);\s*let r = self\.infer_expr_type\(rhs\);", ""),
                  Rw("R6", r"self\.emit_error\(\s*\*span,.*?\}\],\s*\);?", "{ err = true; }", min_matches=4),
              ],
              real_name="Resolver::check_expr (Expr::Binary arm: operand typing rule)"),
        Block("unary_operand_rule", within="check_expr", impl="impl Resolver",
              anchor=r"Expr::Unary \{ op, expr, span \} =>",
              sig="fn unary_operand_rule(op: UnaryOp, t: Option<ValueType>) -> (err: bool)",
              prologue="    let mut err = false;", epilogue="    err",
              ensures=["t is Some ==> err == !static_ok_unary(op, t->Some_0)"],
              rewrites=[
                  Rw("R11b", r"self\.check_expr\(expr\);\s*let t = self\.infer_expr_type\(expr\);", ""),
                  Rw("R6", r"self\.emit_error\(\s*\*span,.*?\}\],\s*\);?", "{ err = true; }", min_matches=2),
              ],
              real_name="Resolver::check_expr (Expr::Unary arm: operand typing rule)"),
        # the type given to a binary expression: present whenever the operands are acceptable (so a well-typed expression never
        # poisons its parent), covering every type the evaluator can produce for it, and exact when no operand is dynamic
        Block("infer_binary", within="infer_expr_type", impl="impl Resolver",
              anchor=r"Expr::Binary \{ op, lhs, rhs, \.\. \} =>",
              sig="fn infer_binary(op: BinaryOp, l: ValueType, r: ValueType) -> (res: Option<ValueType>)",
              ensures=["static_ok(op, l, r) ==> res is Some",
                       "static_ok(op, l, r) ==> forall|a: ValueType, b: ValueType| fits(l, a) && fits(r, b) && #[trigger] rt_ok(op, a, b) ==> covers(res->Some_0, result_ty(op, a, b))",
                       "static_ok(op, l, r) && !dynamic(l) && !dynamic(r) ==> res == Some(result_ty(op, l, r))"],
              rewrites=[Rw("R11b", r"let l = self\.infer_expr_type\(lhs\)\?;\s*let r = self\.infer_expr_type\(rhs\)\?;", "")],
              real_name="Resolver::infer_expr_type (Expr::Binary arm)"),
        Block("infer_unary", within="infer_expr_type", impl="impl Resolver",
              anchor=r"Expr::Unary \{ op, expr, \.\. \} =>",
              sig="fn infer_unary(op: UnaryOp, t: ValueType) -> (res: Option<ValueType>)",
              ensures=["static_ok_unary(op, t) ==> res == Some(result_ty_unary(op))"],
              rewrites=[Rw("R11b", r"let t = self\.infer_expr_type\(expr\)\?;", "")],
              real_name="Resolver::infer_expr_type (Expr::Unary arm)"),
    ],
)
