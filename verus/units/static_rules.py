import sys, pathlib
sys.path.insert(0, str(pathlib.Path(__file__).resolve().parent.parent))
from vlib.vextract import VUnit, Fn, Const, Raw, Rw, Enum, Block

SPEC = r'''
// ---------------------------------------------------------------------------------------------------------------------
// The documented operator table (property C01's list: IEEE arithmetic on numbers, string concatenation with strings and numbers,
// comparisons between values of one type or with null, boolean and/or with null as falsy), over RUNTIME types ...
// ---------------------------------------------------------------------------------------------------------------------
pub open spec fn is_num(t: ValueType) -> bool { t == ValueType::Number }
pub open spec fn is_str(t: ValueType) -> bool { t == ValueType::String }
pub open spec fn boolish(t: ValueType) -> bool { t == ValueType::Bool || t == ValueType::Null }
pub open spec fn dynamic(t: ValueType) -> bool { t == ValueType::Dynamic }

pub open spec fn rt_ok(op: BinaryOp, a: ValueType, b: ValueType) -> bool {
    match op {
        BinaryOp::Add => (is_num(a) || is_str(a)) && (is_num(b) || is_str(b)),
        BinaryOp::Minus | BinaryOp::Times | BinaryOp::Divide | BinaryOp::Mod => is_num(a) && is_num(b),
        BinaryOp::Eq | BinaryOp::Gt | BinaryOp::Lt =>
            a == ValueType::Null || b == ValueType::Null || (a == b && (is_num(a) || is_str(a) || a == ValueType::Bool)),
        BinaryOp::And | BinaryOp::Or => boolish(a) && boolish(b),
    }
}
// ... lifted to STATIC types: an operand typed Dynamic may turn out to be any runtime type, so an expression is statically wrong
// exactly when NO choice of runtime types for its Dynamic operands makes the operator applicable.
pub open spec fn static_ok(op: BinaryOp, l: ValueType, r: ValueType) -> bool {
    match op {
        BinaryOp::Add => (is_num(l) || is_str(l) || dynamic(l)) && (is_num(r) || is_str(r) || dynamic(r)),
        BinaryOp::Minus | BinaryOp::Times | BinaryOp::Divide | BinaryOp::Mod => (is_num(l) || dynamic(l)) && (is_num(r) || dynamic(r)),
        BinaryOp::Eq | BinaryOp::Gt | BinaryOp::Lt =>
            l == ValueType::Null || r == ValueType::Null || dynamic(l) || dynamic(r) || (l == r && (is_num(l) || is_str(l) || l == ValueType::Bool)),
        BinaryOp::And | BinaryOp::Or => (boolish(l) || dynamic(l)) && (boolish(r) || dynamic(r)),
    }
}
// unary operators and the type an expression is given
pub open spec fn rt_ok_unary(op: UnaryOp, a: ValueType) -> bool {
    match op { UnaryOp::Not => boolish(a), UnaryOp::Minus => is_num(a) }
}
pub open spec fn static_ok_unary(op: UnaryOp, t: ValueType) -> bool { dynamic(t) || rt_ok_unary(op, t) }
pub open spec fn result_ty(op: BinaryOp, a: ValueType, b: ValueType) -> ValueType {
    match op {
        BinaryOp::Add => if is_num(a) && is_num(b) { ValueType::Number } else { ValueType::String },
        BinaryOp::Minus | BinaryOp::Times | BinaryOp::Divide | BinaryOp::Mod => ValueType::Number,
        _ => ValueType::Bool,
    }
}
pub open spec fn result_ty_unary(op: UnaryOp) -> ValueType { match op { UnaryOp::Not => ValueType::Bool, UnaryOp::Minus => ValueType::Number } }
// an inferred static type t covers a runtime type a
pub open spec fn covers(t: ValueType, a: ValueType) -> bool { dynamic(t) || t == a }
// ---- method argument typing on a statically typed receiver ------------------------------------------------------------------
// static types of the call's argument expressions (`self.infer_expr_type(args.args[k])`); the shims' `requires` are the slice bounds
pub struct SArgs { pub tys: Ghost<Seq<Option<ValueType>>> }
impl SArgs {
    pub open spec fn n(&self) -> nat { self.tys@.len() }
    #[verifier::external_body]
    pub fn len(&self) -> (r: usize) ensures r == self.n() { unimplemented!() }
    #[verifier::external_body]
    pub fn is_empty(&self) -> (r: bool) ensures r == (self.n() == 0) { unimplemented!() }
    #[verifier::external_body]
    pub fn ty_of(&self, k: usize) -> (r: Option<ValueType>) requires k < self.n() ensures r == self.tys@[k as int] { unimplemented!() }
}
// documented argument types; None = any type is fine
pub open spec fn arg_ty(b: MemberBuiltin, k: int) -> Option<ValueType> {
    match b {
        MemberBuiltin::String(StringBuiltin::Find) | MemberBuiltin::String(StringBuiltin::Split) => if k == 0 { Some(ValueType::String) } else { None },
        MemberBuiltin::String(StringBuiltin::Replace) => if k == 0 || k == 1 { Some(ValueType::String) } else { None },
        MemberBuiltin::String(StringBuiltin::Slice) => if k == 0 || k == 1 { Some(ValueType::Number) } else { None },
        MemberBuiltin::Array(ArrayBuiltin::Join) => if k == 0 { Some(ValueType::String) } else { None },
        MemberBuiltin::ProcessCommand(ProcessCommandBuiltin::Cwd) | MemberBuiltin::ProcessCommand(ProcessCommandBuiltin::Env) => if k == 0 { Some(ValueType::String) } else { None },
        MemberBuiltin::ProcessCommand(ProcessCommandBuiltin::TimeoutMs) => if k == 0 { Some(ValueType::Number) } else { None },
        _ => None,
    }
}
pub open spec fn member_arity(b: MemberBuiltin) -> nat {
    match b {
        MemberBuiltin::String(StringBuiltin::Slice) | MemberBuiltin::String(StringBuiltin::Replace) | MemberBuiltin::ProcessCommand(ProcessCommandBuiltin::Env) => 2,
        MemberBuiltin::String(StringBuiltin::Find) | MemberBuiltin::String(StringBuiltin::Split) | MemberBuiltin::Array(ArrayBuiltin::Join)
        | MemberBuiltin::Array(ArrayBuiltin::Push) | MemberBuiltin::ProcessCommand(ProcessCommandBuiltin::Cwd) | MemberBuiltin::ProcessCommand(ProcessCommandBuiltin::Arg)
        | MemberBuiltin::ProcessCommand(ProcessCommandBuiltin::StdinText) | MemberBuiltin::ProcessCommand(ProcessCommandBuiltin::TimeoutMs) => 1,
        _ => 0,
    }
}
// argument k is statically wrong: it has a concrete static type different from the documented one
pub open spec fn arg_wrong(b: MemberBuiltin, a: &SArgs, k: int) -> bool {
    arg_ty(b, k) is Some && a.tys@[k] is Some && !dynamic(a.tys@[k]->Some_0) && a.tys@[k]->Some_0 != arg_ty(b, k)->Some_0
}
proof fn lemma_arg_ty_only_first_two(b: MemberBuiltin, a: &SArgs)
    ensures (exists|k: int| 0 <= k && #[trigger] arg_wrong(b, a, k)) == (arg_wrong(b, a, 0) || arg_wrong(b, a, 1)),
{
    if !(arg_wrong(b, a, 0) || arg_wrong(b, a, 1)) {
        assert forall|k: int| 0 <= k implies !#[trigger] arg_wrong(b, a, k) by { if k >= 2 { assert(arg_ty(b, k) is None); } }
    }
}
// ---- calls of named functions --------------------------------------------------------------------------------------------------
pub struct Errs { pub arity: bool, pub types: bool, pub undeclared: bool }
pub struct FuncId { pub g: Ghost<int> }
pub open spec fn fits(s: ValueType, a: ValueType) -> bool { !dynamic(a) && (dynamic(s) || s == a) }

// static_ok is exactly "some runtime instantiation is applicable" (so the table above is not an independent invention)
proof fn lemma_static_ok_is_existential(op: BinaryOp, l: ValueType, r: ValueType)
    ensures static_ok(op, l, r) == (exists|a: ValueType, b: ValueType| fits(l, a) && fits(r, b) && rt_ok(op, a, b)),
{
    if static_ok(op, l, r) {
        // witnesses: a Dynamic operand is instantiated with Null for comparisons, Number for arithmetic/add, Bool for and/or
        let pick = |s: ValueType, other: ValueType| -> ValueType {
            if !dynamic(s) { s } else {
                match op {
                    BinaryOp::Add | BinaryOp::Minus | BinaryOp::Times | BinaryOp::Divide | BinaryOp::Mod => ValueType::Number,
                    BinaryOp::Eq | BinaryOp::Gt | BinaryOp::Lt => ValueType::Null,
                    BinaryOp::And | BinaryOp::Or => ValueType::Bool,
                }
            }
        };
        let a = pick(l, r);
        let b = pick(r, l);
        assert(fits(l, a) && fits(r, b) && rt_ok(op, a, b));
    } else {
        assert forall|a: ValueType, b: ValueType| !(fits(l, a) && fits(r, b) && rt_ok(op, a, b)) by { }
    }
}
'''

UNIT = VUnit(
    name="static_rules",
    props=["C09"],
    source="src/resolver.rs",
    preamble="",
    trusted=["the arm's sub-expression checks and type inference (check_expr(lhs/rhs), infer_expr_type) are cut off: the block is verified as a function of the two inferred operand types",
             "emit_error(*span, TypeMismatch, ..) is reduced to `err = true` (R6)"],
    lemma_obligations=["lemma_static_ok_is_existential", "lemma_arg_ty_only_first_two"],
    items=[
        Enum("ValueType", source="src/helpers.rs", derive="#[derive(Clone, Copy)]", eq=True),
        Enum("BinaryOp", source="src/syntax/parser.rs"),
        Enum("UnaryOp", source="src/syntax/parser.rs"),
        Enum("StringBuiltin", source="src/builtins/string.rs"),
        Enum("ArrayBuiltin", source="src/builtins/array.rs"),
        Enum("NumberBuiltin", source="src/builtins/number.rs"),
        Enum("ProcessCommandBuiltin", source="src/builtins/process.rs"),
        Enum("ProcessResultBuiltin", source="src/builtins/process.rs"),
        Enum("MemberBuiltin", source="src/builtins/mod.rs"),
        Enum("GlobalBuiltin", source="src/builtins/mod.rs"),
        Raw(SPEC),
        Block("binary_operand_rule", within="check_expr", impl="impl Resolver",
              anchor=r"Expr::Binary \{ op, lhs, rhs, span \} =>",
              sig="fn binary_operand_rule(op: BinaryOp, l0: Option<ValueType>, r0: Option<ValueType>) -> (err: bool)", arm=True,
              prologue="    let mut err = false;",
              epilogue="    err",
              # a binary expression over typed operands is rejected exactly when its operand types are statically wrong
              ensures=["(l0 is Some && r0 is Some) ==> err == !static_ok(op, l0->Some_0, r0->Some_0)"],
              rewrites=[
                  Rw("R11b", r"self\.check_expr\((?:lhs|rhs)\);", "", min_matches=2),
                  Rw("R11b", r"self\.infer_expr_type\(lhs\)", "l0", min_matches=1), Rw("R11b", r"self\.infer_expr_type\(rhs\)", "r0", min_matches=1),
                  Rw("R6", r"self\.emit_error\(\s*\*span,.*?\}\],\s*\);?", "{ err = true; }", min_matches=4),
              ],
              real_name="Resolver::check_expr (Expr::Binary arm: operand typing rule)"),
        Block("unary_operand_rule", within="check_expr", impl="impl Resolver",
              anchor=r"Expr::Unary \{ op, expr, span \} =>",
              sig="fn unary_operand_rule(op: UnaryOp, t0: Option<ValueType>) -> (err: bool)", arm=True,
              prologue="    let mut err = false;", epilogue="    err",
              ensures=["t0 is Some ==> err == !static_ok_unary(op, t0->Some_0)"],
              rewrites=[
                  Rw("R11b", r"self\.check_expr\(expr\);", ""), Rw("R11b", r"self\.infer_expr_type\(expr\)", "t0"),
                  Rw("R6", r"self\.emit_error\(\s*\*span,.*?\}\],\s*\);?", "{ err = true; }", min_matches=2),
              ],
              real_name="Resolver::check_expr (Expr::Unary arm: operand typing rule)"),
        # the type given to a binary expression: present whenever the operands are acceptable (so a well-typed expression never
        # poisons its parent), covering every type the evaluator can produce for it, and exact when no operand is dynamic
        Block("infer_binary", within="infer_expr_type", impl="impl Resolver",
              anchor=r"Expr::Binary \{ op, lhs, rhs, \.\. \} =>",
              sig="fn infer_binary(op: BinaryOp, l0: ValueType, r0: ValueType) -> (res: Option<ValueType>)", arm=True,
              ensures=["static_ok(op, l0, r0) ==> res is Some",
                       "static_ok(op, l0, r0) ==> forall|a: ValueType, b: ValueType| fits(l0, a) && fits(r0, b) && #[trigger] rt_ok(op, a, b) ==> covers(res->Some_0, result_ty(op, a, b))",
                       "static_ok(op, l0, r0) && !dynamic(l0) && !dynamic(r0) ==> res == Some(result_ty(op, l0, r0))"],
              rewrites=[Rw("R11b", r"self\.infer_expr_type\(lhs\)\?", "l0"), Rw("R11b", r"self\.infer_expr_type\(rhs\)\?", "r0")],
              real_name="Resolver::infer_expr_type (Expr::Binary arm)"),
        Block("infer_unary", within="infer_expr_type", impl="impl Resolver",
              anchor=r"Expr::Unary \{ op, expr, \.\. \} =>",
              sig="fn infer_unary(op: UnaryOp, t0: ValueType) -> (res: Option<ValueType>)", arm=True,
              ensures=["static_ok_unary(op, t0) ==> res == Some(result_ty_unary(op))"],
              rewrites=[Rw("R11b", r"self\.infer_expr_type\(expr\)\?", "t0")],
              real_name="Resolver::infer_expr_type (Expr::Unary arm)"),
        Fn("expect_member_string_arg", impl="impl Resolver",
           sig="fn expect_member_string_arg(arg: Option<ValueType>) -> (err: bool)",
           expect_sig=r"fn expect_member_string_arg\(&mut self, field: &str, arg: ExprRef<'ast>, span: Span\)",
           ensures=["err == (arg is Some && arg->Some_0 != ValueType::String && !dynamic(arg->Some_0))"],
           rewrites=[Rw("R10", r"if let Some\(arg_ty\) = self\.infer_expr_type\(arg\)\s*&& ([^{]+?)\s*\{(.*?)\n        \}", r"let mut err = false;\n        if let Some(arg_ty) = arg { if \1 {\2\n        } }\n        err"),
                     Rw("R6", r"self\.emit_error\(\s*span,.*?\}\],\s*\);?", "{ err = true; }", min_matches=1)],
           vacuity="-", real_name="Resolver::expect_member_string_arg"),
        Fn("expect_member_number_arg", impl="impl Resolver",
           sig="fn expect_member_number_arg(arg: Option<ValueType>) -> (err: bool)",
           expect_sig=r"fn expect_member_number_arg\(&mut self, field: &str, arg: ExprRef<'ast>, span: Span\)",
           ensures=["err == (arg is Some && arg->Some_0 != ValueType::Number && !dynamic(arg->Some_0))"],
           rewrites=[Rw("R10", r"if let Some\(arg_ty\) = self\.infer_expr_type\(arg\)\s*&& ([^{]+?)\s*\{(.*?)\n        \}", r"let mut err = false;\n        if let Some(arg_ty) = arg { if \1 {\2\n        } }\n        err"),
                     Rw("R6", r"self\.emit_error\(\s*span,.*?\}\],\s*\);?", "{ err = true; }", min_matches=1)],
           vacuity="-", real_name="Resolver::expect_member_number_arg"),
        # with the right number of arguments, a method call on a statically typed receiver is rejected for its argument types
        # exactly when some argument has a concrete static type different from the documented one
        Block("member_arg_rule", within="check_expr", impl="impl Resolver",
              anchor=r"match builtin (?=\{\s*MemberBuiltin::ProcessCommand\(ProcessCommandBuiltin::Cwd\))",
              sig="fn member_arg_rule(builtin: MemberBuiltin, args: &SArgs) -> (err: bool)",
              prologue="    let mut err = false;\n    match builtin {", epilogue="    }\n    err",
              requires=["args.n() == member_arity(builtin)"], expand_or_guards=1,
              # (no builtin documents a type beyond its second argument: lemma_arg_ty_only_first_two)
              ensures=["err == (arg_wrong(builtin, args, 0) || arg_wrong(builtin, args, 1))"],
              rewrites=[Rw("R11b", r"args\.args\.is_empty\(\)", "args.is_empty()", min_matches=0),
                        Rw("R11b", r"args\.args\.len\(\)", "args.len()", min_matches=0),
                        Rw("R9", r"self\.expect_member_(string|number)_arg\(field, args\.args\[(\d)\], \*span\);", r"if expect_member_\1_arg(args.ty_of(\2)) { err = true; }", min_matches=3)],
              real_name="Resolver::check_expr (member call: argument typing rule)"),
        # conditions: a statically typed condition is rejected exactly when it can never be a boolean or null
        Fn("check_boolean_expr", impl="impl Resolver",
           sig="fn check_boolean_expr(expr_type: Option<ValueType>) -> (err: bool)",
           expect_sig=r"fn check_boolean_expr\(&mut self, expr: ExprRef<'ast>\)",
           ensures=["err == (expr_type is Some && !boolish(expr_type->Some_0) && !dynamic(expr_type->Some_0))"],
           rewrites=[Rw("R11b", r"let expr_type = self\.infer_expr_type\(expr\);", "let mut err = false;"),
                     Rw("R10", r"if let Some\(t\) = expr_type\s*&& ([^{]+?)\s*\{(.*)\n        \}", r"if let Some(t) = expr_type { if \1 {\2\n        } }\n        err"),
                     Rw("R6", r"let span = match expr \{.*?\};", ""),
                     Rw("R6", r"self\.emit_error\(\s*span,.*?\}\],\s*\);?", "{ err = true; }", min_matches=1)],
           vacuity="-", real_name="Resolver::check_boolean_expr (if / jasi conditions)"),
        # indexing: the receiver must be able to be an array and the index a number
        Block("index_operand_rule", within="check_expr", impl="impl Resolver",
              anchor=r"Expr::Index \{ array, index, index_span, span \} =>",
              sig="fn index_operand_rule(array_ty: Option<ValueType>, index_ty: Option<ValueType>) -> (errs: (bool, bool))",
              prologue="    let mut err_a = false;\n    let mut err_i = false;", epilogue="    (err_a, err_i)",
              ensures=["array_ty is Some ==> errs.0 == !(array_ty->Some_0 == ValueType::Array || dynamic(array_ty->Some_0))",
                       "index_ty is Some ==> errs.1 == !(is_num(index_ty->Some_0) || dynamic(index_ty->Some_0))"],
              rewrites=[Rw("R11b", r"self\.check_expr\(array\);\s*self\.check_expr\(index\);", ""),
                        Rw("R11b", r"let array_ty = self\.infer_expr_type\(array\);", ""),
                        Rw("R11b", r"let index_ty = self\.infer_expr_type\(index\);", ""),
                        Rw("R6", r"self\.emit_error\(\s*\*span,.*?\}\],\s*\);?", "{ err_a = true; }", min_matches=1),
                        Rw("R6", r"self\.emit_error\(\s*\*index_span,.*?\}\],\s*\);?", "{ err_i = true; }", min_matches=1)],
              real_name="Resolver::check_expr (Expr::Index arm: operand typing rule)"),
        Raw("impl GlobalBuiltin {"),
        Fn("arity", label="global_arity", source="src/builtins/mod.rs", impl="impl Builtin for GlobalBuiltin",
           sig="pub fn arity(&self) -> (r: usize)", expect_sig=r"fn arity\(&self\) -> usize",
           ensures=["r == 1"], vacuity="-", real_name="<GlobalBuiltin as Builtin>::arity"),
        Raw("}"),
        # a call `name(args)`: a built-in name is checked against the built-in's arity (and `command` against a string argument), a
        # user function in scope against its parameter count, anything else is an undeclared identifier; each error in its own category
        Block("call_rule", within="check_expr", impl="impl Resolver", arm=True,
              anchor=r"match callee \{\s*Expr::Var\(func_name, \.\.\) =>",
              sig="fn call_rule(b0: Option<GlobalBuiltin>, f0: Option<(FuncId, usize)>, args: &SArgs) -> (e: Errs)",
              prologue="    let mut e_FunctionCallArity = false; let mut e_TypeMismatch = false; let mut e_UndeclaredIdentifier = false;",
              epilogue="    Errs { arity: e_FunctionCallArity, types: e_TypeMismatch, undeclared: e_UndeclaredIdentifier }",
              ensures=["b0 is Some ==> e.arity == (args.n() != 1) && !e.undeclared",
                       "b0 is Some ==> e.types == (b0->Some_0 is Command && args.n() >= 1 && args.tys@[0] is Some && args.tys@[0]->Some_0 != ValueType::String && !dynamic(args.tys@[0]->Some_0))",
                       "b0 is None && f0 is Some ==> e.arity == (args.n() != f0->Some_0.1) && !e.undeclared && !e.types",
                       "b0 is None && f0 is None ==> e.undeclared && !e.arity && !e.types"],
              rewrites=[Rw("R11b", r"GlobalBuiltin::from_name\(func_name\)", "b0", min_matches=1),
                        Rw("R11b", r"self\s*\.lookup_func\(func_name\)\s*\.map\(\|sig\| \(sig\.id, sig\.param_names\.len\(\)\)\)", "f0", min_matches=1),
                        Rw("R13", r"self\.facts\.record_\w+\([^;]*\);|self\.record_stmt_callee\(callee_id\);", "", min_matches=3),
                        Rw("R11b", r"args\.args\.len\(\)", "args.len()", min_matches=2),
                        # let-chain with an inner `let`: `if A && B && let P = X && C && D { BODY }` -> nested ifs (no else branch)
                        Rw("R10", r"if (matches!\(builtin, GlobalBuiltin::Command\))\s*&& !args\.args\.is_empty\(\)\s*&& let Some\(arg_ty\) = self\.infer_expr_type\(args\.args\[0\]\)\s*&& ([^{]+?)\s*\{(.*?)\n                            \}",
                           r"if \1 && !args.is_empty() { if let Some(arg_ty) = args.ty_of(0) { if \2 {\3\n                            } } }", min_matches=1),
                        Rw("R6", r"self\.emit_error\(\s*\*span,\s*SemanticError::(\w+),.*?\}\],\s*\);?", r"{ e_\1 = true; }", min_matches=4)],
              real_name="Resolver::check_expr (Expr::Call on a named callee: arity / scope rule)"),
    ],
)
