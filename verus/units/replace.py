import sys, pathlib
sys.path.insert(0, str(pathlib.Path(__file__).resolve().parent.parent))
from common import MATCH_SPEC, BUF, SUB
from vlib.vextract import VUnit, Fn, Const, Raw, Rw

PRE = MATCH_SPEC + BUF + SUB + r'''
// ---- callee contract: builtins::tw::find, PROVED in unit `tw` (same clause text) ----
#[verifier::external_body]
fn find(h: &[u8], n: &[u8]) -> (r: Option<usize>)
    requires h.len() <= isize::MAX as usize, n.len() <= isize::MAX as usize,
    ensures first_occ(h@, n@, r),
{ unimplemented!() }

// ---- the empty-pattern branch iterates over `char_indices()`; it is cut out here (rewrite R11) and decided by the
//      bounded Kani harness strings.rs::replace__empty_pattern ----
#[verifier::external_body]
fn empty_pattern_branch(haystack: &[u8], to: &[u8]) -> (b: Buf)
{ unimplemented!() }

// ---- the property statement: "replace substitutes every non-overlapping occurrence scanning left to right" ----
pub open spec fn leftmost_from(h: Seq<u8>, n: Seq<u8>, pos: int, i: int) -> bool {
    pos <= i && matches_at(h, n, i) && forall|t: int| pos <= t < i ==> !matches_at(h, n, t)
}

pub open spec fn repl_from(h: Seq<u8>, from: Seq<u8>, to: Seq<u8>, pos: int) -> Seq<u8>
    decreases h.len() - pos,
{
    if from.len() == 0 || pos < 0 || pos > h.len() {
        Seq::<u8>::empty()
    } else if exists|i: int| leftmost_from(h, from, pos, i) {
        let i = choose|i: int| leftmost_from(h, from, pos, i);
        h.subrange(pos, i) + to + repl_from(h, from, to, i + from.len())
    } else {
        h.subrange(pos, h.len() as int)
    }
}

proof fn lemma_shift(h: Seq<u8>, n: Seq<u8>, pos: int, s: int)
    requires 0 <= pos <= h.len(), 0 <= s,
    ensures matches_at(h.subrange(pos, h.len() as int), n, s) == matches_at(h, n, pos + s),
{
    let suf = h.subrange(pos, h.len() as int);
    if s + n.len() <= suf.len() {
        assert(suf.subrange(s, s + n.len()) =~= h.subrange(pos + s, pos + s + n.len()));
    }
}

proof fn lemma_leftmost_unique(h: Seq<u8>, n: Seq<u8>, pos: int, i: int, j: int)
    requires leftmost_from(h, n, pos, i), leftmost_from(h, n, pos, j),
    ensures i == j,
{
    if i < j { assert(!matches_at(h, n, i)); }
    if j < i { assert(!matches_at(h, n, j)); }
}

// one unfolding step of the specification at a found occurrence / at the end
proof fn lemma_step_some(h: Seq<u8>, from: Seq<u8>, to: Seq<u8>, pos: int, idx: int)
    requires from.len() > 0, 0 <= pos <= h.len(), first_occ(h.subrange(pos, h.len() as int), from, Some(idx as usize)), 0 <= idx <= usize::MAX,
    ensures
        pos + idx + from.len() <= h.len(),
        repl_from(h, from, to, pos) == h.subrange(pos, pos + idx) + to + repl_from(h, from, to, pos + idx + from.len()),
{
    let suf = h.subrange(pos, h.len() as int);
    lemma_shift(h, from, pos, idx);
    assert forall|t: int| pos <= t < pos + idx implies !matches_at(h, from, t) by {
        lemma_shift(h, from, pos, t - pos);
    }
    assert(leftmost_from(h, from, pos, pos + idx));
    let c = choose|i: int| leftmost_from(h, from, pos, i);
    lemma_leftmost_unique(h, from, pos, c, pos + idx);
}

proof fn lemma_step_none(h: Seq<u8>, from: Seq<u8>, to: Seq<u8>, pos: int)
    requires from.len() > 0, 0 <= pos <= h.len(), first_occ(h.subrange(pos, h.len() as int), from, None::<usize>),
    ensures repl_from(h, from, to, pos) == h.subrange(pos, h.len() as int),
{
    assert forall|i: int| !leftmost_from(h, from, pos, i) by {
        if pos <= i {
            lemma_shift(h, from, pos, i - pos);
        }
    }
}
'''

UNIT = VUnit(
    name="replace",
    props=["C13"],
    source="src/builtins/replace.rs",
    preamble=PRE,
    trusted=["callee builtins::tw::find is used through its contract first_occ, proved in unit tw",
             "ArenaString modelled as a byte buffer (shim Buf, rewrite R8)",
             "a match of a valid UTF-8 needle in valid UTF-8 text lies on character boundaries (UTF-8 is self-synchronising), so the byte-level result is valid UTF-8",
             "empty-pattern branch cut out (R11) and decided by the bounded Kani harness replace__empty_pattern"],
    lemma_obligations=["lemma_shift", "lemma_leftmost_unique", "lemma_step_some", "lemma_step_none"],
    items=[
        Fn("replace",
           expect_sig=r"fn replace<'arena>\( arena: &'arena Arena, haystack: &str, from: &str, to: &str, \) -> ArenaString<'arena>",
           sig="pub fn replace(haystack: &[u8], from: &[u8], to: &[u8]) -> (out: Buf)",
           requires=["haystack.len() <= isize::MAX as usize", "from.len() <= isize::MAX as usize"],
           ensures=["from@.len() > 0 ==> out@ == repl_from(haystack@, from@, to@, 0)"],
           # loop ordinals refer to the ORIGINAL text: #1 is the `for` of the empty-pattern branch (cut out by R11), #2 the `while let`
           loops={2: dict(invariant=["pos <= haystack.len()", "from@.len() > 0", "haystack.len() <= isize::MAX as usize", "from.len() <= isize::MAX as usize",
                                     "buffer@ + repl_from(haystack@, from@, to@, pos as int) == repl_from(haystack@, from@, to@, 0)"],
                          ensures=["first_occ(haystack@.subrange(pos as int, haystack@.len() as int), from@, None::<usize>)"],
                          decreases="haystack.len() - pos")},
           rewrites=[
               Rw("R11", r"if from\.is_empty\(\) \{.*?return buffer;\s*\}", "if from.len() == 0 { return empty_pattern_branch(haystack, to); }"),
               Rw("R8", r"ArenaString::with_capacity_in\(haystack\.len\(\), arena\)", "Buf::with_capacity(haystack.len())"),
               Rw("R5", r"unsafe \{\s*haystack\.get_unchecked\(pos\.\.\)\s*\}", "sub_from(haystack, pos)", min_matches=2),
               Rw("R5", r"unsafe \{\s*haystack\.get_unchecked\(pos\.\.index\)\s*\}", "sub(haystack, pos, index)"),
               Rw("R10", r"let mut pos = 0;", "let mut pos: usize = 0;"),
           ],
           inserts=[
               (r"let index = pos \+ index;", 1, "proof { lemma_step_some(haystack@, from@, to@, pos as int, index as int); }"),
               (r"^\s*buffer\s*$", 1, "proof { lemma_step_none(haystack@, from@, to@, pos as int); }"),
           ],
           vacuity="haystack: &[u8], from: &[u8], to: &[u8]",
           real_name="builtins::replace::replace"),
    ],
)
