import sys, pathlib
sys.path.insert(0, str(pathlib.Path(__file__).resolve().parent.parent))
from vlib.vextract import VUnit, Fn, Const, Raw, Rw, Enum, Block, Struct

# C09 (after 265e1d6): return types are inferred in the scope of the DEFINITION.  A return expression whose type can depend on a name the
# function binds itself must be reported by expr_mentions (it is then typed Dynamic: no false rejection against a same-named outer
# declaration); a literal or a string -- whose type is fixed whatever it interpolates -- must NOT be (it keeps its type, so a statically
# wrong use of the call's result is still rejected).

PRE = r'''
#[derive(Clone, Copy)] pub struct StrH { pub g: Ghost<int> }
#[derive(Clone, Copy)] pub struct SpanH { pub g: Ghost<int> }
'''

MODEL = r'''
pub struct ArgList<'ast> { pub args: Elems<'ast> }
pub struct Elems<'ast> { pub g: Ghost<int>, pub p: core::marker::PhantomData<&'ast u8> }
pub struct Segs<'ast> { pub g: Ghost<int>, pub p: core::marker::PhantomData<&'ast u8> }
pub struct Names { pub g: Ghost<int> }
pub uninterp spec fn names_contain(n: int, s: StrH) -> bool;
pub uninterp spec fn elems_depend(e: int, n: int) -> bool;            // type_depends of some element
// `names.contains(name)`
#[verifier::external_body]
pub fn contains_name(n: &Names, s: &StrH) -> (r: bool) ensures r == names_contain(n.g@, *s) { unimplemented!() }
// R11: `<list>.iter().any(|x| Self::expr_mentions(x, names))` (recursion into each element under expr_mentions's contract)
#[verifier::external_body]
pub fn any_mentions<'ast>(s: &Elems<'ast>, n: &Names) -> (r: bool) ensures elems_depend(s.g@, n.g@) ==> r { unimplemented!() }

// the type infer_expr_type gives the expression can depend on what one of the names is bound to
pub open spec fn type_depends<'ast>(e: &Expr<'ast>, n: int) -> bool decreases e {
    match *e {
        Expr::Var(name, _) => names_contain(n, name),
        Expr::Number(..) | Expr::Bool(..) | Expr::Null(..) | Expr::String { .. } | Expr::Array { .. } => false,
        Expr::Index { array, index, .. } => type_depends(array, n) || type_depends(index, n),
        Expr::Binary { lhs, rhs, .. } => type_depends(lhs, n) || type_depends(rhs, n),
        Expr::Unary { expr, .. } => type_depends(expr, n),
        Expr::Member { object, .. } => type_depends(object, n),
        Expr::Call { callee, args, .. } => type_depends(callee, n) || elems_depend(args.args.g@, n),
    }
}
'''

EXPR_RW = [Rw("R12", r"ExprRef<'ast>", "&'ast Expr<'ast>"), Rw("R12", r"\bSpan\b", "SpanH"), Rw("R12", r"&'ast str", "StrH"),
           Rw("R12", r"ArgListRef<'ast>", "&'ast ArgList<'ast>"), Rw("R12", r"&'ast \[&'ast Expr<'ast>\]", "&'ast Elems<'ast>")]

UNIT = VUnit(
    name="bound_names",
    props=["C09"],
    source="src/resolver.rs",
    preamble=PRE,
    trusted=["the AST enums are copied from the source with leaf payloads opaque; element and argument lists are opaque and the two `any` folds over them are cut out as calls whose contract is the fold of the per-element contract (R11)",
             "collect_bound_names (a recursive walk that pushes into a Vec) is not under contract: a name it misses is a false rejection the obligations here do not see"],
    items=[
        Enum("BinaryOp", source="src/syntax/parser.rs"), Enum("UnaryOp", source="src/syntax/parser.rs"),
        Enum("StringParts", source="src/syntax/parser.rs", derive="", generics="<'ast>", rewrites=[Rw("R12", r"&'ast str", "StrH"), Rw("R12", r"&'ast \[StringSegment<'ast>\]", "&'ast Segs<'ast>")]),
        Enum("Expr", source="src/syntax/parser.rs", derive="", generics="<'ast>", rewrites=EXPR_RW),
        Raw(MODEL),
        Fn("expr_mentions", impl="impl Resolver",
           sig="fn expr_mentions<'ast>(expr: &'ast Expr<'ast>, names: &Names) -> (res: bool)", expect_sig=r"fn expr_mentions\(expr: ExprRef<'ast>, names: &\[&'ast str\]\) -> bool",
           ensures=["type_depends(expr, names.g@) ==> res",
                    "(expr is Number || expr is Bool || expr is Null || expr is String) ==> !res"],
           decreases="expr",
           rewrites=[Rw("R9", r"names\.contains\(name\)", "contains_name(names, name)", min_matches=1),
                     Rw("R11", r"elements\.iter\(\)\.any\(\|e\| Self::expr_mentions\(e, names\)\)", "any_mentions(elements, names)", min_matches=0),
                     Rw("R11", r"args\.args\.iter\(\)\.any\(\|arg\| Self::expr_mentions\(arg, names\)\)", "any_mentions(&args.args, names)", min_matches=1),
                     Rw("R8", r"Self::expr_mentions\(", "expr_mentions(", min_matches=4)],
           vacuity="-", real_name="Resolver::expr_mentions"),
    ],
)
