"""Shared Verus preamble fragments (spec functions and external contracts used by several units)."""

MEMCHR = r'''
// ---- external contract: memchr_rs::memchr (documented: index of the first `needle` at or after `offset`, haystack.len() if none) ----
#[verifier::external_body]
fn memchr(needle: u8, haystack: &[u8], offset: usize) -> (r: usize)
    ensures
        offset <= haystack.len() ==> offset <= r <= haystack.len(),
        offset > haystack.len() ==> r == haystack.len(),
        r < haystack.len() ==> haystack@[r as int] == needle,
        forall|i: int| offset <= i < r ==> haystack@[i] != needle,
{
    unimplemented!()
}
'''

MEMCHR2 = r'''
// ---- external contract: memchr_rs::memchr2 (first index >= offset holding either byte, haystack.len() if none) ----
#[verifier::external_body]
fn memchr2(needle1: u8, needle2: u8, haystack: &[u8], offset: usize) -> (r: usize)
    ensures
        offset <= haystack.len() ==> offset <= r <= haystack.len(),
        offset > haystack.len() ==> r == haystack.len(),
        r < haystack.len() ==> (haystack@[r as int] == needle1 || haystack@[r as int] == needle2),
        forall|i: int| offset <= i < r ==> haystack@[i] != needle1 && haystack@[i] != needle2,
{
    unimplemented!()
}
'''

SLICE_EQ = r'''
// ---- shim for `&a[i..j] == b` (rewrite R5): its precondition is exactly the bounds condition of the real slice index ----
#[verifier::external_body]
fn slice_eq(a: &[u8], i: usize, j: usize, b: &[u8]) -> (r: bool)
    requires i <= j <= a.len(),
    ensures r == (a@.subrange(i as int, j as int) =~= b@),
{
    &a[i..j] == b
}
'''

MATCH_SPEC = r'''
pub open spec fn matches_at(h: Seq<u8>, n: Seq<u8>, s: int) -> bool {
    0 <= s && s + n.len() <= h.len() && h.subrange(s, s + n.len()) =~= n
}

// the property statement: "substring search returns the first occurrence (or 'not found')"
pub open spec fn first_occ(h: Seq<u8>, n: Seq<u8>, r: Option<usize>) -> bool {
    match r {
        Some(s) => matches_at(h, n, s as int) && forall|t: int| 0 <= t < s ==> !matches_at(h, n, t),
        None => forall|t: int| !matches_at(h, n, t),
    }
}
'''

BUF = r'''
// ---- shim for ArenaString (rewrite R8): a growable byte buffer; WHERE the bytes live is property C11's business ----
pub struct Buf { pub v: Vec<u8> }
impl Buf {
    pub open spec fn view(&self) -> Seq<u8> { self.v@ }
    #[verifier::external_body]
    pub fn with_capacity(n: usize) -> (b: Buf)
        ensures b@ == Seq::<u8>::empty(),
    { Buf { v: Vec::with_capacity(n) } }
    #[verifier::external_body]
    pub fn push_str(&mut self, s: &[u8])
        ensures final(self)@ == old(self)@ + s@,
    { self.v.extend_from_slice(s) }
}
'''

SUB = r'''
// ---- shims for `haystack.get_unchecked(a..)` / `get_unchecked(a..b)` (rewrite R5): requires == the real op's safety condition on bytes ----
#[verifier::external_body]
fn sub_from(a: &[u8], i: usize) -> (r: &[u8])
    requires i <= a.len(),
    ensures r@ == a@.subrange(i as int, a@.len() as int),
{ &a[i..] }
#[verifier::external_body]
fn sub(a: &[u8], i: usize, j: usize) -> (r: &[u8])
    requires i <= j <= a.len(),
    ensures r@ == a@.subrange(i as int, j as int),
{ &a[i..j] }
'''
