from __future__ import annotations

import argparse
import concurrent.futures as cf
import json
import os
import re
import sys
import time
import traceback
from pathlib import Path

from . import core
from .core import (VERIF, KHarness, LostAnchor, Obligation, Scratch, inject_kani, kani_files_closure,
                   kani_playback_test, kani_run_playback, load_kani_inventory, load_known_findings, log, run_kani)
from .props import PROPS

# VERIF_OUT redirects evidence/replays (used when a check is pointed at a seeded copy via VERIF_REPO, so that the
# committed evidence only ever comes from runs against /repo itself)
_OUT = Path(os.environ.get("VERIF_OUT", str(VERIF)))
EVID = _OUT / "evidence"
REPLAYS = _OUT / "replays"


def sel_harnesses(inv: dict, pid: str, tier: str) -> list:
    hs = [h for h in inv.values() if pid in h.props and (tier == "thorough" or h.tier == "quick")]
    return sorted(hs, key=lambda h: h.name)


# ----------------------------------------------------------------------------------------------------
def run_k_group(scratch: Scratch, cfg: str, hs: list) -> tuple[list, str]:
    """Run one cfg group, return obligations."""
    obs = []
    try:
        results, raw, wall = run_kani(scratch, cfg, hs)
    except Exception as e:  # tool error
        raw = f"kani invocation failed: {e}\n{traceback.format_exc()}"
        results = {}
    compile_failed = (not results) and ("error" in raw)
    for h in hs:
        r = results.get(h.name)
        unit = Path(h.file).stem
        ob = Obligation(name=f"K:{unit}:{h.name}", engine="kani 0.68 / cbmc 6.11 (cadical)", function=h.fn, kind=h.kind,
                        status="undecided", bound=h.domain, unit=unit, harness=h.name, cfg=cfg, clauses=h.clauses)
        if r is None:
            tail = "\n".join(raw.splitlines()[-40:])
            ob.detail = ("harness produced no result (compile error in injected text or tool failure)\n" + tail)
        else:
            ob.time_s = r["time"]
            ob.checks = r["checks"] + r["covers_total"]
            if r["status"] == "success":
                if r["covers_total"] == 0:
                    ob.detail = "vacuity guard: harness has no cover! property"
                elif r["covers_sat"] != r["covers_total"]:
                    ob.detail = f"vacuity guard: only {r['covers_sat']} of {r['covers_total']} cover properties satisfied"
                else:
                    ob.status = "discharged"
            elif r["status"] == "failed":
                tool_limit = [f for f in r["failed"] if core.UNSUPPORTED_PAT.search(f["desc"])]
                real = [f for f in r["failed"] if not core.UNSUPPORTED_PAT.search(f["desc"])]
                if real:
                    ob.status = "failed"
                    ob.failed_clauses = [f["desc"] for f in real]
                    ob.detail = r["raw"][-3000:]
                else:
                    ob.detail = "tool limit: " + "; ".join(f["desc"] for f in tool_limit)
            elif r["status"] == "timeout":
                ob.detail = f"CBMC timed out after {h.timeout}s"
            else:
                ob.detail = "kani error:\n" + r["raw"][-2000:]
        obs.append(ob)
    return obs, raw


# ----------------------------------------------------------------------------------------------------
def write_replay(pid: str, ob: Obligation, extra: dict) -> Path:
    REPLAYS.mkdir(parents=True, exist_ok=True)
    safe = re.sub(r"[^A-Za-z0-9_.-]+", "_", ob.name)
    p = REPLAYS / f"{pid}-{safe}.json"
    data = {
        "property": pid, "obligation": ob.name, "engine": ob.engine, "function": ob.function,
        "failed_clauses": ob.failed_clauses, "verifier_output": ob.detail, "harness": ob.harness, "cfg": ob.cfg,
        "unit": ob.unit,
    }
    data.update(extra)
    p.write_text(json.dumps(data, indent=1))
    return p


def decide(pid: str, tier: str) -> int:
    t0 = time.time()
    prop = PROPS[pid]
    seed = int(os.environ.get("VERIF_SEED", "0") or 0)
    inv, files_meta = load_kani_inventory()
    hs = sel_harnesses(inv, pid, tier)
    from .vextract import VUNITS, run_vunit  # late import (optional engine)
    vunits = [u for u in VUNITS.values() if pid in u.props]
    if not hs and not vunits:
        log(f"{pid}: no obligations registered")
        return 2

    obligations: list = []
    injected, assumptions_scan, raw_logs = [], [], {}
    tool_errors = []
    with Scratch(pid) as scratch:
        # ---- Engine K
        groups = {}
        for h in hs:
            groups.setdefault(h.cfg, []).append(h)
        try:
            if hs:
                files = kani_files_closure(files_meta, {h.file for h in hs})
                injected = inject_kani(scratch, files_meta, files, tier == "thorough")
                for f in files:
                    assumptions_scan += [f"kani/{f}: {a}" for a in core.scan_assumptions((VERIF / "kani" / f).read_text())
                                         if "unsafe" not in a]
        except LostAnchor as e:
            tool_errors.append(f"lost anchor: {e}")
            groups = {}
        with cf.ThreadPoolExecutor(max_workers=4) as ex:
            futs = {}
            # cfg groups run one after the other inside one worker each (separate target dirs), V units in parallel
            for cfg, g in groups.items():
                futs[ex.submit(run_k_group, scratch, cfg, g)] = ("K", cfg)
            for u in vunits:
                futs[ex.submit(run_vunit, u, scratch, tier)] = ("V", u.name)
            for fu in cf.as_completed(futs):
                kind, key = futs[fu]
                try:
                    obs, raw = fu.result()
                except LostAnchor as e:
                    tool_errors.append(f"{kind}:{key}: lost anchor: {e}")
                    continue
                except Exception as e:
                    tool_errors.append(f"{kind}:{key}: {e}\n{traceback.format_exc()}")
                    continue
                obligations += obs
                raw_logs[f"{kind}:{key}"] = raw
        for u in vunits:
            assumptions_scan += [f"verus/{u.name}: trusted: {t}" for t in u.trusted]
            assumptions_scan += [f"verus/{u.name}: {a}" for a in u.assumptions_found]

        obligations.sort(key=lambda o: o.name)
        failed = [o for o in obligations if o.status == "failed"]
        undecided = [o for o in obligations if o.status == "undecided"]

        # ---- known findings
        known = [k for k in load_known_findings() if k["property"] == pid]
        unlisted, listed = [], []
        for o in failed:
            ks = [k for k in known if k["obligation"] == o.name or any(k["obligation"] == f"{o.name}:{c}" for c in o.failed_clauses)]
            # an obligation is covered only if every failed clause is listed (or the whole obligation is)
            whole = any(k["obligation"] == o.name for k in ks)
            all_clauses = o.failed_clauses and all(any(k["obligation"] == f"{o.name}:{c}" for k in ks) for c in o.failed_clauses)
            if whole or all_clauses:
                listed.append((o, ks))
            else:
                unlisted.append(o)

        # ---- replay material for unlisted failures (concrete playback generated in parallel, capped)
        violation_lines = []

        def _mk_replay(o):
            extra = {"tier": tier}
            nofail = True
            if o.engine.startswith("kani"):
                h = inv[o.harness]
                test_src, pb_out = kani_playback_test(scratch, o.cfg, h, cap=240)
                if test_src:
                    extra["playback_test"] = test_src
                    extra["harness_file"] = h.file
                    nofail = False
                else:
                    extra["playback_note"] = "kani produced no concrete playback test for this failure (within 240 s)"
                    extra["playback_output_tail"] = pb_out[-1500:]
            rp = write_replay(pid, o, extra)
            return f"VIOLATION property={pid} replay={rp}" + (" no-failing-input-found" if nofail else "")

        if unlisted:
            with cf.ThreadPoolExecutor(max_workers=4) as ex:
                violation_lines = list(ex.map(_mk_replay, unlisted))

    wall = time.time() - t0
    # ---- verdict
    for o, ks in listed:
        for k in ks:
            print(f"KNOWN-FINDING: property={pid} {k['obligation']} :: {k['what']}")
    write_evidence(pid, tier, seed, prop, obligations, injected, assumptions_scan, wall, len(unlisted), tool_errors, listed)
    for o in obligations:
        log(f"  [{o.status:10}] {o.name}  ({o.kind}, {o.time_s:.1f}s, {o.checks} checks)"
            + (f"  FAILED: {o.failed_clauses}" if o.failed_clauses else "")
            + (f"  :: {o.detail.splitlines()[0][:200]}" if o.status == "undecided" and o.detail else ""))
    if unlisted:
        for l in violation_lines:
            print(l)
        for o in unlisted:
            print(f"  failed obligation {o.name}: {'; '.join(o.failed_clauses)}")
        return 1
    if undecided or tool_errors:
        for e in tool_errors:
            log("UNDECIDED:", e)
        for o in undecided:
            log(f"UNDECIDED: {o.name}: {o.detail[:1500]}")
        print(f"UNDECIDED property={pid} ({len(undecided)} obligation(s) could not be decided; see stderr)")
        return 2
    print(f"OK property={pid} tier={tier} obligations={len(obligations)} discharged={sum(o.status == 'discharged' for o in obligations)} wall={wall:.0f}s")
    return 0


# ----------------------------------------------------------------------------------------------------
def write_evidence(pid, tier, seed, prop, obligations, injected, assumptions_scan, wall, nviol, tool_errors, listed):
    EVID.mkdir(parents=True, exist_ok=True)
    n = len(obligations)
    disc = sum(o.status == "discharged" for o in obligations)
    proofs = [o for o in obligations if o.kind == "proof"]
    bounded = [o for o in obligations if o.kind != "proof"]
    all_discharged = n > 0 and disc == n and not listed
    # A 'proof' claim is kept only when every obligation of this run was discharged; its obligation count is then the number of
    # PROOF-LEVEL obligations -- bounded stand-ins are listed separately under bounded_stand_ins and never counted as proved.
    level = prop["level"] if (prop["level"] != "proof" or (all_discharged and proofs)) else "other"
    by_engine = {}
    for o in obligations:
        e = by_engine.setdefault(o.engine, {"obligations": 0, "discharged": 0, "solver_checks": 0, "solver_time_s": 0.0})
        e["obligations"] += 1
        e["discharged"] += o.status == "discharged"
        e["solver_checks"] += o.checks
        e["solver_time_s"] = round(e["solver_time_s"] + o.time_s, 2)
    samples = []
    for o in obligations[:6]:
        samples.append({"obligation": o.name, "function": o.function, "kind": o.kind, "domain_or_bound": o.bound,
                        "status": o.status, "clauses": o.clauses[:12]})
    functions = sorted({o.function for o in obligations})
    expl = (f"{prop['summary']} This run: {n} named obligations ({len(proofs)} proof-level: unbounded or loop-free over the "
            f"full stated domain; {len(bounded)} bounded stand-ins, never counted as proved), {disc} discharged, "
            f"{sum(o.status == 'failed' for o in obligations)} failed, {sum(o.status == 'undecided' for o in obligations)} undecided. "
            f"Not covered: {prop['not_covered']}")
    count_ob = len(proofs) if level == "proof" else n
    count_disc = sum(o.status == "discharged" for o in proofs) if level == "proof" else disc
    cov = {
        "obligations": count_ob,
        "discharged": count_disc,
        "all_named_obligations": n,
        "all_named_discharged": disc,
        "checker_cmd": prop.get("checker_cmd", "/verif/check " + pid + " --tier " + tier),
        "trusted_base": prop["trusted_base"],
        "explanation": expl,
        "solver_level_checks": sum(o.checks for o in obligations),
        "proof_level_obligations": len(proofs),
        "proof_level_discharged": sum(o.status == "discharged" for o in proofs),
        "bounded_stand_ins": [{"name": o.name, "bound": o.bound, "status": o.status} for o in bounded],
        "by_engine": by_engine,
        "functions_under_contract": functions,
        "obligation_table": [{"name": o.name, "function": o.function, "engine": o.engine, "kind": o.kind, "cfg": o.cfg,
                              "status": o.status, "solver_time_s": round(o.time_s, 2), "solver_checks": o.checks,
                              "domain_or_bound": o.bound, "failed_clauses": o.failed_clauses} for o in obligations],
        "samples": samples,
        "injected": injected,
        "known_findings_reported": [k["obligation"] for _, ks in listed for k in ks],
        "tool_errors": tool_errors,
        "exhaustive": False,
    }
    ev = {
        "property_id": pid, "tier": tier, "seed": seed, "level": level, "coverage": cov,
        "assumptions": sorted(set(prop["trusted_base"] + assumptions_scan))[:400],
        "wall_s": round(wall, 1), "violations": nviol,
    }
    (EVID / f"{pid}.json").write_text(json.dumps(ev, indent=1))


# ----------------------------------------------------------------------------------------------------
def replay(path: str) -> int:
    data = json.loads(Path(path).read_text())
    pid = data["property"]
    print(f"replay: property={pid} obligation={data['obligation']}")
    print("failed clauses:", data.get("failed_clauses"))
    if "playback_test" not in data:
        print("no concrete input recorded (no-failing-input-found); verifier output follows:\n")
        print(data.get("verifier_output", ""))
        # re-run the deciding check so the caller sees whether the obligation still fails on the current tree
        return decide(pid, data.get("tier", "quick"))
    inv, files_meta = load_kani_inventory()
    h = inv[data["harness"]]
    m = re.search(r"fn (kani_concrete_playback_\w+)", data["playback_test"])
    test_name = m.group(1)
    with Scratch(pid + "-replay") as scratch:
        files = kani_files_closure(files_meta, {h.file})
        inject_kani(scratch, files_meta, files, data.get("tier") == "thorough",
                    extra_test={"file": h.file, "code": data["playback_test"]})
        rc, out = kani_run_playback(scratch, data["cfg"], test_name)
    tail = "\n".join(out.splitlines()[-40:])
    print(tail)
    if rc != 0 and ("panicked" in out or "FAILED" in out):
        print(f"REPRODUCED property={pid} obligation={data['obligation']}: the recorded input makes the real code violate the contract (native run)")
        return 1
    print("NOT-REPRODUCED: the recorded input no longer violates the contract on the current tree")
    return 0


def main(argv):
    ap = argparse.ArgumentParser()
    ap.add_argument("pid", nargs="?")
    ap.add_argument("--tier", default=os.environ.get("VERIF_TIER", "quick"), choices=["quick", "thorough"])
    ap.add_argument("--replay")
    ap.add_argument("--list", action="store_true")
    ap.add_argument("--manifest", action="store_true")
    a = ap.parse_args(argv)
    if a.manifest:
        write_manifest()
        return 0
    if a.replay:
        return replay(a.replay)
    if a.list:
        inv, _ = load_kani_inventory()
        from .vextract import VUNITS
        for pid in sorted(PROPS):
            print(pid, PROPS[pid]["level"])
            for h in sel_harnesses(inv, pid, "thorough"):
                print(f"   K {h.cfg:7} {h.tier:8} {h.kind:7} {h.name}  [{h.fn}]")
            for u in VUNITS.values():
                if pid in u.props:
                    print(f"   V {u.name}")
        return 0
    if not a.pid or a.pid not in PROPS:
        print("usage: check <Cxx> [--tier quick|thorough] | --replay <path> | --list", file=sys.stderr)
        return 2
    try:
        return decide(a.pid, a.tier)
    except Exception:
        traceback.print_exc()
        print(f"UNDECIDED property={a.pid} (framework error)")
        return 2


# ----------------------------------------------------------------------------------------------------
NOT_APPLICABLE = {}


def write_manifest():
    from .props import PROPS, NOT_APPLICABLE as NA
    checks = []
    for pid in sorted(PROPS):
        p = PROPS[pid]
        checks.append({
            "property_id": pid,
            "quick_cmd": f"./check {pid} --tier quick",
            "thorough_cmd": f"./check {pid} --tier thorough",
            "evidence_file": f"/verif/evidence/{pid}.json",
            "replay_cmd_template": "./check --replay {path}",
            "engine": p.get("engine", "kani+verus"),
            "level_claimed": {"category": p["level"], "text": p["summary"] + " Not covered: " + p["not_covered"],
                              "design_ref": p["design_ref"]},
            "level_note": "Trusted base: " + "; ".join(p["trusted_base"]),
            "technique": p.get("technique", "contract-based deductive verification of the real code (Verus on mechanically extracted functions; Kani/CBMC contract harnesses compiled into the real crate)"),
        })
    man = {
        "version": 1,
        "setup_cmd": "./setup.sh",
        "hooks": {
            "guard": "cfg(kani) -- set only by the verifier on a scratch copy of /repo; no guarded code is committed to /repo",
            "enable": "checks rsync /repo's working tree to a scratch dir, append `#[cfg(kani)] #[path=...] mod verif_kani;` lines there and run `cargo kani --lib`; Verus units are extracted from /repo/src text",
            "baseline_off_cmd": "/verif/scripts/baseline.sh /repo",
            "source_commits": [],
            "add_only": True,
        },
        "engines": [
            {"name": "K", "path": "/verif/kani", "serves_properties": sorted(PROPS),
             "kind_free_text": "Kani 0.68 / CBMC 6.11 contract harnesses (pre/post/frame asserted around the real function) injected as child modules of the real source files"},
            {"name": "V", "path": "/verif/verus", "serves_properties": sorted(PROPS),
             "kind_free_text": "Verus 0.2026.09.13 / Z3 on functions cut mechanically out of /repo/src with a closed list of syntactic rewrites"},
        ],
        "checks": checks,
        "not_applicable": [{"property_id": k, "reason": v} for k, v in sorted(NA.items())],
        "notes": "Exit 2 (printed as UNDECIDED) means a tool limit, timeout or lost extraction anchor: never reported as a violation. Genuine defects found and repaired are listed in /verif/known_findings.txt.",
    }
    (VERIF / "MANIFEST.json").write_text(json.dumps(man, indent=1) + "\n")
