"""Registry: what each claimed property's check is made of (obligations come from kani/*.rs tags and verus units)."""

OS_TRUST = "foreign mmap/mprotect/madvise/munmap (sys::unix::UnixVirtualMemory) replaced by a contract stub: commit may fail, nothing else observable"
KANI_TRUST = "Kani 0.68 MIR->goto translation and CBMC 6.11 (bit-precise, machine integers, real pointer arithmetic)"
VERUS_TRUST = "Verus 0.2026.09.13 + Z3; extraction rewrites R1-R13 listed in DESIGN.md sections 0.3 and 2.2 (syntactic; echoed per unit in coverage.rewrites)"

PROPS = {
    "C11": {
        "level": "proof",
        "design_ref": "DESIGN.md section 5, C11",
        "summary": ("Bump arena step contracts on the real src/arena/bump.rs and scratch.rs: every public operation is checked "
                    "from an arbitrary well-formed state (offset <= commit <= capacity, chunk-aligned), so histories are covered "
                    "by induction on the invariant."),
        "not_covered": ("capacities above 3 commit chunks in the Kani harnesses (the Verus unit covers the offset arithmetic for all "
                        "capacities); the OS actually honouring mprotect; Vec/String growth policies of std (they only call the "
                        "Allocator methods under contract)."),
        "trusted_base": [OS_TRUST, KANI_TRUST, VERUS_TRUST],
    },
    "C12": {
        "level": "proof",
        "design_ref": "DESIGN.md section 5, C12",
        "summary": ("String pool contracts on the real src/arena/pool.rs: size_class over every u32 against the slot tables, "
                    "SlotBlock address arithmetic over every address, Pool::alloc / Pool::dealloc verified by Verus as an inductive step "
                    "from every well-formed state of a pool of ANY size (ghost live set = handed-out minus free, whole-view frame, "
                    "pigeonhole lemma: the free list never overflows) and by Kani on the real pointer code with the debug poison "
                    "assertion for small pools, constructors, PoolSet class routing and arena fallback."),
        "not_covered": ("PoolSet::new's production layout (1.3 MiB) is replaced by a hand-laid-out set with few slots per class in the "
                        "Kani harnesses; the Verus unit abstracts slot pointers to indices and the free list to a sequence (their pointer "
                        "code is what the Kani harnesses execute)."),
        "trusted_base": [OS_TRUST, KANI_TRUST, VERUS_TRUST],
    },
    "C13": {
        "level": "proof",
        "design_ref": "DESIGN.md section 5, C13",
        "summary": ("String built-ins against their specification: tw::find / maximal_suffix / crit_period and replace are extracted "
                    "from the real source and verified by Verus for all inputs against recursive spec functions written from the "
                    "property statement (first occurrence or None; leftmost non-overlapping substitution), including termination "
                    "and absence of panics; slice index arithmetic over every pair of f64 bounds by Kani; that find ANSWERS in characters (the unit len "
                    "and slice use; it answered in bytes until fix b17dd8d) on a concrete table (bounded)."),
        "not_covered": ("std wrappers (trim, to_uppercase, to_lowercase, to_number, split, chars().count()) are one-line delegations "
                        "whose Unicode/IEEE behaviour is assumed from std -- which is how a per-character to_lowercase that ignored Final_Sigma "
                        "went unnoticed until a differential run (fix a78ad3f: now str::to_lowercase); memchr's AVX2 implementation is an external contract."),
        "trusted_base": [VERUS_TRUST, KANI_TRUST, "memchr_rs::memchr/memchr2 behave as documented (external contracts)"],
    },
    "C07": {
        "level": "proof",
        "design_ref": "DESIGN.md section 5, C07",
        "summary": ("Front-end totality, lexer and diagnostics half: all nine scanning functions of src/syntax/scanner.rs are extracted "
                    "and verified by Verus against the lexer invariant (position in bounds and on a character boundary) with every "
                    "emitted diagnostic span, label span and token span required to be inside the text, ordered and on character "
                    "boundaries; termination of every loop; no recursion; no arithmetic overflow; no out-of-bounds index. "
                    "Diagnostics line/column index arithmetic likewise.  Parser recovery (unit parser_progress): Parser::synchronize never moves "
                    "backwards and terminates on every token sequence, and the expected-statement recovery arm of parse_statement consumes at "
                    "least one token whenever one is left (so a statement loop cannot spin on a token no rule accepts).  Resolver (unit return_fixpoint): the "
                    "return-type refinement loop of predeclare_block_functions terminates (bounded by the number of functions in the block)."),
        "not_covered": ("spans fabricated by the parser and resolver (copied/merged from token spans), progress of the other parser loops (argument lists, blocks, expression continuation), "
                        "parser/resolver recursion depth, fmt-based rendering text, arena exhaustion while rendering very many diagnostics."),
        "trusted_base": [VERUS_TRUST, "three facts about valid UTF-8 (see unit scanner: utf8_ok, first_char, first_char_len)", "memchr_rs::memchr2 behaves as documented"],
    },
    "C10": {
        "level": "proof",
        "design_ref": "DESIGN.md section 5, C10",
        "summary": ("Layout insignificance, lexer half: the contracts of the real skip_whitespace (skips exactly a maximal run of "
                    "space/tab/LF/FF/CR), skip_comment (consumes exactly up to and including the first LF or CR), try_consume_word "
                    "(any run of layout bytes between the words of a multi-word keyword; nothing consumed on failure) and "
                    "scan_identifier_or_keyword (exact rollback after a failed lookahead) are verified by Verus for all inputs.  PARENTHESES (Verus, unit parser_paren: the Token::LParen arm of Parser::parse_expression): a parenthesised primary IS "
                    "the node its inner expression parses to with binding power 0 -- no wrapper, nothing attached inside the arm, the continuation "
                    "is left to the caller with the caller's binding power -- so redundant parentheses do not change the tree."),
        "not_covered": ("that statement boundaries depend on token kinds only is a two-run non-interference property of the 1300-line "
                        "parser and is not expressible as a per-function contract here; string-token payloads; that the evaluator maps equal trees to equal values (parentheses: only the parser half is decided)."),
        "trusted_base": [VERUS_TRUST, "three facts about valid UTF-8 (see unit scanner)", "memchr_rs::memchr2 behaves as documented"],
    },
    "C18": {
        "level": "proof",
        "design_ref": "DESIGN.md section 5, C18",
        "summary": ("Analysis budget gate: limits::first_exceeded_limit is checked by Kani against the staged-order specification for "
                    "every AnalysisCaps value and every size (so just below / at / just above each default cap are instances); "
                    "Resolver::emit_analysis_warnings is checked modularly against that contract: on Some(limit) exactly one "
                    "Warning-severity diagnostic, no error, optimization_plan == None, no analysis pass entered; "
                    "Runtime::stmt_is_pruned/function_is_pruned are false without a plan.  Discovery (Verus, unit count_walk: the body of "
                    "count_function's explicit-stack loop with the real Stmt enum): visiting a statement pushes every statement nested directly "
                    "in it (both branches of an if, loop bodies, blocks) and hands nested function definitions to count_function, so the sizes "
                    "the limits are compared with leave no function out."),
        "not_covered": ("that an unpruned, warning-free run equals the run the program would have had otherwise is C03's statement; "
                        "the per-function block/op counts of CountFunctionBuilder (only the discovery walk is decided); per-function "
                        "vectors longer than 2 entries."),
        "trusted_base": [KANI_TRUST, VERUS_TRUST, OS_TRUST],
    },
    "C08": {
        "level": "other",
        "design_ref": "DESIGN.md section 0.4, C08",
        "summary": ("Depth is bounded or probed wherever the interpreter recurses, as far as contracts can say it (Verus, unit nesting_guard).  "
                    "PARSER: both recursive entry points (parse_expression, parse_block_body) enter the descent only while fewer than "
                    "MAX_PARSE_NESTING activations are open, restore the counter, and at the limit give up with one diagnostic instead of descending.  "
                    "TREE: one step of the explicit-stack depth measurement (find_too_deep, over the real Expr and Stmt enums) reports a node deeper "
                    "than MAX_TREE_DEPTH and otherwise pushes EVERY node directly below the current one exactly one level deeper, so the resolver, "
                    "the analysis passes and the evaluator never see a tree deeper than that -- including the left-deep trees long operator chains "
                    "build without any nesting in the source.  RUNTIME: check_stack reports StackOverflow exactly when the stack has grown more "
                    "than STACK_BUDGET below the base recorded at run entry, and every activation of eval_expr probes before it does anything else."),
        "not_covered": ("frame sizes: that 256 parser activations, a 512-deep tree walked by the resolver / analysis passes and a 4 MiB evaluator budget "
                        "fit an 8 MiB stack in debug and release builds is measured (DESIGN.md 0.5: the unguarded tree overflowed at about 1500 levels "
                        "in a debug build), not proved -- neither verifier has a notion of frame size; that the measurement loop visits every entry it "
                        "pushed (one step is decided, the loop is a stack pop); recursion over run-time DATA (clone_into / promote / drop / display of "
                        "deeply nested arrays is not probed); arena exhaustion."),
        "trusted_base": [VERUS_TRUST, OS_TRUST, "the address of a local is (about) the stack pointer and the stack grows downwards"],
    },
    "C15": {
        "level": "other",
        "design_ref": "DESIGN.md section 5, C15",
        "summary": ("Child-process configuration: validate_named_text and validate_count are proved for every cap value; "
                    "ProcessCommand::validate is checked against the conjunction of the configured limits written from the property "
                    "statement for EVERY ProcessCaps value, with the accepted spec required to BE the builder's own "
                    "program/args/cwd/env/stdin (pointer identity: same count, order, bytes); builder operations, clone_into/promote "
                    "byte preservation and the host-policy gate (ProcessDenied before validate and before any spawn) by bounded harnesses.  RESIDENCE "
                    "(Verus, unit cmd_store): every string the script hands to a command builder method (arg, cwd, env key/value, stdin_text) is "
                    "allocated in the persistent arena, never the frame arena that is reset per iteration/return -- eval_required_string and "
                    "eval_process_command_call_mut extracted from src/runtime.rs with region-typed allocation shims.  SPAWN (Verus, unit host_process: "
                    "the real run_host_process over a ghost record of std::process::Command): the Command that is spawned carries exactly the "
                    "validated spec -- the program, every argument in the same order and number, the working directory if set, every environment "
                    "pair in order -- and nothing else (the precondition of the spawn shim)."),
        "not_covered": ("that std::process::Command execs the program directly without a shell and hands the strings it was given to the child "
                        "unchanged (documented std behaviour, assumed); commands with more than 2 arguments / 2 environment pairs "
                        "are covered by uniformity of the loops, not by enumeration."),
        "trusted_base": [KANI_TRUST, OS_TRUST, "std::process::Command passes program/args/env/cwd to the child unchanged and without a shell (assumed)"],
    },
    "C09": {
        "level": "other",
        "design_ref": "DESIGN.md section 5, C09",
        "summary": ("Static rules, two halves.  CONTEXT (Kani): Resolver::check_stmt for comot / next / return is checked for every loop depth and "
                    "function context, and Resolver::check_function_body against its contract -- the body is checked with loop depth 0 "
                    "and inside a function whatever encloses the definition, and in_loop / current_function / current_owner / scope stacks "
                    "are restored exactly (frame); AST nodes concrete, resolver state symbolic.  OPERAND TYPING (Verus, the Expr::Binary and "
                    "Expr::Unary arms of Resolver::check_expr and Resolver::infer_expr_type cut from src/resolver.rs on every run, ALL operators x "
                    "ALL static operand types): a binary/unary expression over typed operands is rejected if and only if no runtime "
                    "instantiation of its dynamically typed operands fits the operator (static_ok, proved equal to the existential lift of "
                    "the evaluator's operator table rt_ok, the same table unit eval_ops proves the evaluator implements); the type given to an "
                    "expression exists whenever the operands are acceptable, covers every type the evaluator can produce, and is exact when no "
                    "operand is dynamic -- so a well-typed sub-expression never makes its parent rejected.  METHOD ARGUMENTS: with the right argument "
                    "count, a method call on a statically typed receiver is rejected for its argument types exactly when an argument has a concrete "
                    "static type different from the documented one (member_arg_rule, expect_member_string_arg, expect_member_number_arg).  CONDITIONS AND INDEXES: check_boolean_expr rejects exactly the conditions "
                    "whose static type can never be boolean/null, the Expr::Index arm exactly the receivers that can never be an array and indexes that can never be a number.  "
                    "CALLS: `name(args)` on a built-in name is rejected with FunctionCallArity iff the count differs from the built-in's arity (and "
                    "`command` with TypeMismatch iff its argument is statically a non-string), on a user function in scope iff the count differs "
                    "from its parameter count, and with UndeclaredIdentifier iff the name is neither (call_rule: each error in its own category).  "
                    "DECLARED TYPES (unit resolver_assign): after `make x get e`, first declaration or re-declaration in the same scope, the static "
                    "type later uses of x are checked against is e's type (dynamic if e has none).  RETURN TYPES (unit return_fixpoint): every "
                    "refinement pass re-infers EVERY function of the block, so a signature first inferred from not-yet-typed callees is corrected; a "
                    "`return` whose expression mentions a name the function binds itself (parameter, local, nested function) is Dynamic whatever a "
                    "same-named outer declaration's type is (no false rejection); expr_mentions (unit bound_names, the real recursive function) reports every "
                    "expression whose type can depend on such a name and never a literal or a string, whose type is fixed.  "
                    "STATEMENTS (unit resolver_stmt): a variable reference is UndeclaredIdentifier and `x get e` is AssignmentToUndeclared exactly "
                    "when no such variable is in scope (e is checked either way), and afterwards the variable's recorded type is the assigned value's type or Dynamic -- never a type it no longer has; an if checks its condition under the boolean rule and both "
                    "branches at its own loop depth; a jasi checks its body -- and only its body -- one loop level deeper and restores the depth; check_block opens the block's three "
                    "scopes, hoists its functions before the first statement, checks EVERY statement in order and leaves the stacks balanced."),
        "not_covered": ("duplicate-function/parameter and reserved-name rules for functions and parameters (loops over HashSet / closures), function "
                        "lookup itself (lookup_func is a parameter of call_rule; its innermost-scope rule is a Kani obligation under C04), which methods exist for which "
                        "receiver type and their argument count, "
                        "plain re-assignment (`x get e` does not re-type x), and the recursion of check_expr over sub-expressions (cut at the arm boundary)."),
        "trusted_base": [KANI_TRUST, OS_TRUST, "predeclare_block_functions used through a registration-only contract stub in the check_function_body harness (its HashSet code is outside CBMC's reach)"],
    },
    "C14": {
        "level": "other",
        "design_ref": "DESIGN.md section 5, C14",
        "summary": ("Allocator half of 'runs do not influence each other': scratch_arena(conflict) never returns the conflicting arena "
                    "(so resolver tables and the runtime frame stacked on one scratch arena cannot free persistent data growing on the other), "
                    "ScratchArena::drop restores the offset seen at creation in LIFO order, scratch::init returns both global arenas to offset 0, "
                    "and alloc_raw's result depends on (offset, request) only, never on commit history or memory contents.  Standard-input route "
                    "(Verus, unit stdin_source: the read loop of naija::cmd::run_stdin over a model of std::io::Read): the text handed to the "
                    "pipeline is the WHOLE input for every way the OS splits it across reads, Interrupted retried, other errors a failure."),
        "not_covered": ("that the CLI prints exactly what the library pipeline computes, exit statuses, file/--eval routing and which Runtime entry "
                        "point the CLI calls: whole-pipeline "
                        "I/O equivalence has no callee-level statement a contract can carry (pipeline half not applicable to this technique)."),
        "trusted_base": [KANI_TRUST, VERUS_TRUST, OS_TRUST],
    },
    "C16": {
        "level": "other",
        "design_ref": "DESIGN.md section 0.4, C16",
        "summary": ("Captured child output, the sequential functions the property rests on (Verus, unit capture, extracted from "
                    "src/sys/process_common.rs; std::io::Read and the shared AtomicU8 are models stated in the unit).  read_captured_stream: what one "
                    "capture thread returns is everything the child wrote to that stream for EVERY way the pipe splits it into reads, unless that "
                    "exceeds the cap -- then the shared flag is non-zero afterwards (this stream's code if none overflowed earlier), so a truncated "
                    "buffer never goes unflagged -- and never more than the cap.  join_capture: an uncaptured stream is null, the flagged stream is "
                    "the OutputLimitExceeded error, non-UTF-8 bytes are InvalidUtf8, otherwise exactly the collected bytes.  wait_for_child: a raised "
                    "flag or an expired timeout returns the matching error only AFTER the child is killed and reaped; the stream named is the one "
                    "the flag encodes (stream_code / stream_from_code are inverse, codes non-zero).  run_host_process (unit host_process): a failed wait "
                    "still joins the writer and both captures before the error is returned, each capture handle is joined as the stream it was "
                    "opened for, an uncaptured stream is null in the result, and an exit status -- zero or not -- is result data.  Each contract is stated so that it holds for the "
                    "calling thread whatever the other reader does (the flag's only writers are compare_exchange(0, code): it never returns to 0)."),
        "not_covered": ("the composition across threads: that every truncated capture ends in an error needs the happens-before edge from a reader's "
                        "write of its own code to the load in that stream's join (thread join), which no sequential contract carries -- argued in DESIGN.md "
                        "0.4, not decided; that a stream sees nothing from the other stream (pipe wiring in std::process); the stdin writer thread; "
                        "liveness of the poll loop; Windows/wasm back ends."),
        "trusted_base": [VERUS_TRUST, OS_TRUST, "std::io::Read, std::thread and std::process::Child behave as documented; AtomicU8 compare_exchange/load are sequentially consistent"],
    },
    "C17": {
        "level": "other",
        "design_ref": "DESIGN.md section 5, C17",
        "level": "proof",
        "summary": ("read_line after the repair (commit 64df517): sys::unix::read_line_from<R: BufRead> is extracted and verified by Verus "
                    "against the property statement for ALL inputs and EVERY chunking: with the reader modelled by std's BufRead contract "
                    "(fill_buf returns an arbitrary non-empty prefix of the unconsumed input), one call returns exactly line_of(rest) and "
                    "leaves exactly after_line(rest), so successive calls deliver successive lines and empty strings at end of input."),
        "not_covered": ("termination when the reader answers Interrupted forever (partial correctness); that std::io::stdin()'s process-wide "
                        "BufReader keeps its buffer between lock() calls (documented std behaviour); the prompt printing; lossy UTF-8 "
                        "replacement of invalid bytes; the Windows implementation."),
        "trusted_base": [VERUS_TRUST, "std::io::BufRead contract (model Reader in unit read_line)", "memchr_rs::memchr behaves as documented", "std::io::Stdin is a process-wide BufReader (documented)"],
    },
    "C02": {
        "level": "other",
        "design_ref": "DESIGN.md section 5, C02",
        "summary": ("Memory reclamation, store primitives: ArenaCow::promote, Value::clone_into (strings), Runtime::overwrite_slot and "
                    "Value::return_to_pool are checked by Kani against contracts over content and residence -- same content, not in the frame "
                    "arena, never a view of a pool slot it does not own, old slot returned exactly once -- with the string pool present through "
                    "its contracts (dealloc havocs the slot's bytes, so a use-after-return is visible) and the frame poisoned after each call; "
                    "Arena::reset / contains_ptr and the PoolSet contracts they rest on are proved under C11/C12.  Strings stored into a process_command "
                    "builder are persistent-arena allocations (Verus, unit cmd_store, region typing of eval_process_command_call_mut).  STORE SITES (Verus, unit "
                    "store_sites, extracted from src/runtime.rs): overwrite_slot for every value type, the new-slot branches of define_var / "
                    "define_bound_local, array push, assign_index's element store and shout's output record each store a value that went through "
                    "Value::promote whenever a frame arena is active (the store shims' precondition).  RESIDENCE (Verus, unit residence: a four-region "
                    "model Source/Pool/Persist/Frame over the real bodies of ArenaCow::clone, ArenaCow::promote, HostValue::clone_into, "
                    "HostHandle::clone_into, HostHandle::promote, Value::promote and Value::clone_into, arrays and host values included, recursion "
                    "and element loops with invariants): after promote nothing of the value is left in the frame arena and a borrowed result views "
                    "only source text or persistent bytes; clone_into yields a value whose owned parts are all fresh allocations in the target arena "
                    "and which holds no view of an owned string; Runtime::relocate_return_value resets the frame exactly once on every path and returns a "
                    "value no part of which is pre-reset frame memory (strings rebuilt after the reset, arrays/hosts promoted first); binding an "
                    "argument to a parameter never leaves a borrowed view of a pool slot and promotes arrays/hosts while a frame is active.  RESET POINTS "
                    "(unit block_exec): a jasi resets the frame only at the end of a round that completed normally or with `next`, only when a frame "
                    "arena is active and only to a mark the loop took itself (nothing allocated before the loop is reclaimed; comot/return leave "
                    "without a reset); a call resets it exactly once, through relocate_return_value, and closes its parameter scope on every path."),
        "not_covered": ("that EVERY store site of the 1900-line evaluator goes through one of these primitives (six are decided, see store_sites); "
                        "byte-level content of arrays and host values (the region model abstracts pointers to regions; byte contents are the Kani "
                        "harnesses, strings only); the staging reclaim inside relocate_return_value (persistent mark/reset). The defects found there (returning a host value; growing a "
                        "parameter array inside a loop in the callee) were repaired (265c738, 0c46f42) but are not decided by an obligation."),
        "trusted_base": [KANI_TRUST, OS_TRUST, "PoolSet::{alloc_str, contains, dealloc} used through contract stubs whose clauses are proved for the real PoolSet under C12"],
    },
    "C05": {
        "level": "other",
        "design_ref": "DESIGN.md section 5, C05",
        "summary": ("Arrays are values, element-string half: Value::clone_into never lets a copy share bytes with an owned string of the "
                    "original (checked for frame-, persistent- and pool-resident strings, with the owner's storage recycled afterwards), "
                    "which is what array elements are cloned with; ArenaCow::promote gives stored elements their own slot (shared with C02).  "
                    "Elements stored by push and by index assignment are promoted copies whatever their type (Verus, unit store_sites: "
                    "eval_array_member_call_mut, assign_index), so an element never shares frame storage with the expression that produced it; "
                    "Value::clone_into and Value::promote rebuild an array's buffer in the target arena and every element recursively (Verus, unit "
                    "residence, region model: fresh_in / outlives hold for the array storage and for each element).  Which array an index chain mutates "
                    "(Verus, unit index_target: the real Runtime::flatten_index_target over the real Expr enum): the returned base is the Var node the "
                    "chain is rooted in -- the node its resolved binding is looked up through -- with that variable's name and one index per level."),
        "not_covered": ("byte-level separation of array buffers (the region model says WHICH arena a buffer lives in, not its address), the walk down the evaluated indices in get_mutable_array / assign_index, "
                        "pop/reverse, call and return paths: values read back "
                        "from arena memory make CBMC explore every Value variant and do not terminate (> 5 min per harness)."),
        "trusted_base": [KANI_TRUST, OS_TRUST, "PoolSet contracts (C12)"],
    },
    "C03": {
        "level": "other",
        "design_ref": "DESIGN.md section 5, C03",
        "summary": ("Pruning safety, plan-side half: the effect lattice ExprClass::join (least upper bound, all 27 triples), the builtin effect "
                    "tables (every receiver-mutating, I/O or process builtin is Impure; the two independent tables agree), "
                    "the liveness bit-set helpers set_local / clear_local / contains_local / word_count verified by Verus over the abstract member() view with a whole-view frame, "
                    "opt::stmt_effective_class (Impure on an unavailable summary, otherwise joined with every callee's TRANSITIVE class), "
                    "note_max_reference / declaration_is_runtime_removable, OptimizationPlan membership on sorted vectors, and the runtime "
                    "gate Runtime::stmt_is_pruned / function_is_pruned (exactly plan membership; nothing without a plan).  CFG (Verus, unit cfg_loop: the "
                    "Stmt::Loop arm of FunctionBuilder::lower_stmt cut from src/analysis/cfg.rs): the lowered loop has the shape the language "
                    "defines -- pre -> cond, cond branches to a fresh body entry or a fresh exit, the body is lowered with comot -> exit and "
                    "next -> cond, the body tail goes back to cond, lowering continues in exit; comot/next edges target the enclosing loop's exit/condition; an if branches to two fresh entries, lowers each present branch under "
                    "the SAME loop context, joins the open tails in a fresh block and has no fall-through exactly when neither side has.  "
                    "SUMMARIES (Verus, unit summary_step: the body of summarize_component's callee loop and the real ExprClass::join): absorbing a "
                    "callee puts everything it may transitively call / read / write through captures into the caller's sets, never drops anything, "
                    "reports growth, raises the caller's running class to at least the callee's TRANSITIVE class, and aborts on an unavailable callee.  "
                    "MAX REFERENCE (unit max_reference, the callee arm of compute_max_local_reference_stmt with its three noting loops cut out as "
                    "opaque calls): a call statement is noted as a possible reference of the function's locals in BOTH the callee's transitive "
                    "capture reads and its transitive capture writes, and of every local of the function when no summary is available.  LIVENESS (unit liveness_call, "
                    "the callee loop of compute_block_facts): a call contributes the callee's transitive captured READS as uses (every local without "
                    "a summary) and defines NOTHING -- captured writes of a callee are may-writes and never make an earlier store dead.  REMOVABILITY "
                    "(K:opt:stmt_effective_class): a statement whose call assigns captured variables is impure, any statement that calls user code is "
                    "at least may-trap.  TRAP CLASS (unit trap_class: the real classify_expr, is_constant_expr, var_read_class and global_builtin_class): an "
                    "expression classed PureNoTrap -- the only class a skipped statement may have -- is one whose evaluation cannot raise a runtime "
                    "error, by a may_trap specification written from the runtime's side: an operator, method or command() on an operand whose type "
                    "literals do not fix, divide/mod, an index, an un-called member, and a read of a variable owned by another function (in an "
                    "expression or a {name}) can each fail; only literal-only expressions cannot.  EXECUTION "
                    "(unit block_exec): exec_block_with_flow skips exactly the statements the plan prunes -- every other statement of a block that "
                    "completes normally is executed, and no pruned one ever is."),
        "not_covered": ("soundness of the dataflow itself with respect to execution: liveness fix-point, compute_block_facts, summary "
                        "propagation to a fixpoint (summarize_component's outer loops; one absorption step is decided), CFG lowering of the other statements and scope kills, the statement-level loops of compute_max_local_reference_stmt and "
                        "build_optimization_plan's loops (arena-resident tables do not terminate in CBMC). The liveness and effect-class defects found by "
                        "seeding sub-agents on the unmodified tree are repaired (5dca53d, 47f97eb, 224dbb2) and the last two are now decided by obligations."),
        "trusted_base": [KANI_TRUST, VERUS_TRUST, OS_TRUST],
    },
    "C04": {
        "level": "other",
        "design_ref": "DESIGN.md section 5, C04",
        "summary": ("Lexical resolution, lookup mechanisms: after ProgramFacts::finalize_pointer_bindings the sorted pointer tables answer "
                    "expr_local / stmt_local / string_segment_local with exactly the recorded binding (None for unrecorded keys) for every "
                    "recording order, and Runtime::lookup_local_env / lookup_local_mut return the innermost scope's latest slot with the "
                    "queried id for every assignment of ids to a 3x2 scope stack; Resolver::lookup_var_info / lookup_func resolve a name to the innermost "
                    "scope's latest declaration / the innermost defining block.  DECLARATION (Verus, unit resolver_assign: the Stmt::Assign arm of "
                    "Resolver::check_stmt over a ghost record of the current scope): the initializer of `make x get e` is resolved and typed BEFORE "
                    "x is (re)declared, so `make x get x add 1` reads the outer x; afterwards the entry a later use of x sees is the last one and "
                    "carries e's type; no other name's entry changes.  Index chains (unit index_target): `a[i][j]` resolves through the Var node it is rooted in.  Blocks (unit block_exec, the "
                    "real Runtime::exec_block_with_flow over a ghost scope-depth record): a scope is opened first and closed on EVERY successful way "
                    "out -- normal completion, return, comot, next -- so the scope stack is as deep afterwards as before and a later lookup cannot "
                    "see the block's variables; the block's functions are hoisted before its first statement.  Activations (unit block_exec, the head and tail "
                    "of eval_function_call): a call pushes a mark naming the function and the parameter scope it just opened, and removes exactly "
                    "that mark on every way out; lookups by local id stop at the newest mark of the local's owner, so another activation's instance "
                    "is never read or written: the floor is exactly the base of the newest mark of the local's owner (unit activation_floor, the real "
                    "local_search_floor with its iterator chain written as the loop it is); the three searches over env[floor..] (lookup_local_env, "
                    "lookup_local_mut, assign_bound_local) are under contract in the same unit, their iterator chains written as the index "
                    "loops std defines them to be (R10e-g): the slot they answer with lies at or above that floor, holds the local, and is the "
                    "newest such slot; None / UndeclaredVariable only when no scope from the floor up holds it.  Their precondition (every "
                    "mark's base <= env.len()) is the caller-side invariant call_prologue establishes; it is assumed there, not re-proved."),
        "not_covered": ("that resolver ids and the dynamic scope search compose to lexical scoping under recursion (needs an invariant "
                        "relating the activation stack to the scope tree across eval_function_call), argument evaluation order, "
                        "per-block predeclaration, assign/define_bound_local (Value's recursive drop glue explodes in CBMC), function tables (user_call_callee, function_by_body)."),
        "trusted_base": [KANI_TRUST, VERUS_TRUST, OS_TRUST],
    },
    "C06": {
        "level": "other",
        "design_ref": "DESIGN.md section 5, C06",
        "summary": ("No-crash, at the evaluator's value-type dispatch points and in the callees behind them.  ORDER (unit eval_ops): `and`/`or` evaluate "
                    "the left operand once and first and the right one exactly when the left does not decide the result; every other binary operator "
                    "evaluates both operands once each, left first.  DISPATCH (Verus, blocks and functions "
                    "cut from src/runtime.rs on every run, for ALL runtime types of every operand/receiver/argument): the binary operator dispatch, "
                    "`and`/`or`, unary operators, if/jasi conditions, the index receiver, eval_member_call, eval_string_member_call, "
                    "eval_array_member_call, eval_array_member_call_mut, eval_process_command_call_mut, eval_builtin_call and check_method_arity contain no reachable "
                    "unreachable!/assert!/expect/slice-index panic: every ill-typed combination returns RuntimeErrorKind::TypeMismatch and every "
                    "well-typed one the documented result type; the Builtin::arity tables that make `args.args[k]` in bounds are verified against the "
                    "documented arities.  CALLEES: tw::find / maximal_suffix / crit_period / replace verified by Verus for all inputs (bounds, "
                    "overflow, termination), StringBuiltin::slice on every class of f64 bound; Resolver::check_function_body rejects comot/next that "
                    "could reach the runtime's unreachable!() at a function boundary."),
        "not_covered": ("panic sites that do not depend on a value's runtime type and are justified by parser/resolver structure (a variable that "
                        "exists, a callee that is a name or member); allocation "
                        "failure; native stack exhaustion (C08); the statements cut out of the dispatch arms (payload arithmetic and string building, "
                        "listed per obligation as rewrites R12/R13).  The dispatch points were where defect D4 lived (~25 reachable panics, repaired by "
                        "1ddff14 and 983d2ef)."),
        "trusted_base": [VERUS_TRUST, KANI_TRUST],
    },
}


NOT_APPLICABLE = {
    "C01": "whole-program equivalence with the documented semantics (printed sequence and manner of ending for EVERY accepted program): no per-function contract carries it -- evaluation order, precedence and the arithmetic kernel are properties of the parser/evaluator recursion as a whole, and a bounded run of the evaluator is out of reach of both verifiers. Fragments of it ARE decided, under the properties whose checks own them: which evaluator arm runs for every operator x runtime types and its result type, exact and/or/not/condition truthiness (C06 unit eval_ops), that statically well-typed operand combinations are never rejected and inferred types are sound (C09 unit static_rules), find/replace/slice results (C13)",
}
