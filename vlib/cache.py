"""Warm the Kani dependency cache: /verif/.cache/kani-target-<cfg> (pure optimisation, see core.seed_target_cache)."""
import os, shutil, subprocess, sys
from .core import CACHE, Scratch, _kani_env, inject_kani, load_kani_inventory, kani_files_closure, log

def main():
    inv, files_meta = load_kani_inventory()
    for cfg in ("debug", "release"):
        hs = [h for h in inv.values() if h.cfg == cfg]
        if not hs:
            continue
        dst = CACHE / f"kani-target-{cfg}"
        with Scratch(f"cache-{cfg}") as s:
            env = _kani_env(s, cfg)
            # build the crate once (no harness selected -> codegen only)
            p = subprocess.run(["cargo", "kani", "--lib", "--only-codegen"], cwd=s.repo, env=env,
                               stdout=subprocess.PIPE, stderr=subprocess.STDOUT, text=True)
            if p.returncode != 0:
                log(p.stdout[-2000:])
                return 1
            src = s.dir / f"target-{cfg}"
            if dst.exists():
                shutil.rmtree(dst)
            CACHE.mkdir(exist_ok=True)
            shutil.copytree(src, dst, symlinks=True)
            log(f"cache: {dst} ready")
    return 0

if __name__ == "__main__":
    sys.exit(main())
