"""Shared plumbing for /verif/check: scratch copies, Engine K (Kani), Engine V (Verus), verdicts, evidence.

Exit codes of a check:  0 = every deciding obligation discharged (or a listed known finding)
                        1 = at least one obligation FAILED and is not a listed known finding  -> VIOLATION line
                        2 = undecided (tool error, timeout, lost anchor, unsatisfied cover, vacuity guard) -> never a VIOLATION
"""
from __future__ import annotations

import json
import os
import re
import shutil
import subprocess
import sys
import tempfile
import time
from dataclasses import dataclass, field
from pathlib import Path

VERIF = Path(__file__).resolve().parent.parent
REPO = Path(os.environ.get("VERIF_REPO", "/repo"))
CACHE = VERIF / ".cache"
NCPU = os.cpu_count() or 4

ENV_OFFLINE = {"CARGO_NET_OFFLINE": "true"}


def log(*a):
    print(*a, file=sys.stderr, flush=True)


# ----------------------------------------------------------------------------------------------------
# scratch copy of the repository's *current working tree*
# ----------------------------------------------------------------------------------------------------
class Scratch:
    def __init__(self, tag: str):
        base = os.environ.get("VERIF_SCRATCH_BASE", tempfile.gettempdir())
        self.dir = Path(tempfile.mkdtemp(prefix=f"naija-verif-{tag}-", dir=base))
        self.repo = self.dir / "repo"
        subprocess.run(
            ["rsync", "-a", "--exclude", "/target", "--exclude", "/.git", "--exclude", "/wasm/target",
             f"{REPO}/", f"{self.repo}/"],
            check=True,
        )
        (self.dir / "tmp").mkdir()

    def cleanup(self):
        shutil.rmtree(self.dir, ignore_errors=True)

    def __enter__(self):
        return self

    def __exit__(self, *exc):
        if os.environ.get("VERIF_KEEP_SCRATCH"):
            log(f"[keep] scratch kept at {self.dir}")
        else:
            self.cleanup()


# ----------------------------------------------------------------------------------------------------
# result records
# ----------------------------------------------------------------------------------------------------
@dataclass
class Obligation:
    name: str                 # e.g. K:bump:alloc_raw__contract  /  V:tw:find:postcondition
    engine: str               # "kani/cbmc" | "verus/z3"
    function: str             # real function under contract
    kind: str                 # "proof" (unbounded / loop-free full domain) | "bounded"
    status: str               # discharged | failed | undecided
    time_s: float = 0.0
    checks: int = 0           # number of solver-level checks behind it
    failed_clauses: list = field(default_factory=list)   # names of failed clauses
    detail: str = ""          # verifier output excerpt
    bound: str = ""           # stated bound / domain
    unit: str = ""
    harness: str = ""
    cfg: str = ""
    clauses: list = field(default_factory=list)          # contract clause texts (samples for evidence)


# ----------------------------------------------------------------------------------------------------
# Engine K: Kani harnesses injected into the real crate
# ----------------------------------------------------------------------------------------------------
HARNESS_RE = re.compile(r"^// @harness\s+(.*)$")
INJECT_RE = re.compile(r"^// @inject\s+(\S+)(?:\s+as\s+(\w+))?")
NEEDS_RE = re.compile(r"^// @needs\s+(.*)$")
APPEND_RE = re.compile(r"^// @append\s+(\S+):\s*(.*)$")


@dataclass
class KHarness:
    full: str                 # fully qualified harness path (used with --exact)
    name: str
    file: str                 # kani/<file>.rs
    props: list
    fn: str
    kind: str
    tier: str
    cfg: str
    domain: str
    timeout: int
    clauses: list


def _parse_kv(s: str) -> dict:
    out = {}
    for m in re.finditer(r'(\w+)=("([^"]*)"|\S+)', s):
        out[m.group(1)] = m.group(3) if m.group(3) is not None else m.group(2)
    return out


def load_kani_inventory() -> tuple[dict, dict]:
    """Scan /verif/kani/*.rs.  Returns (harness name -> KHarness, file -> meta{inject,modname,needs})."""
    harnesses, files = {}, {}
    for p in sorted((VERIF / "kani").glob("*.rs")):
        meta = {"inject": None, "modname": None, "needs": [], "append": []}
        lines = p.read_text().splitlines()
        pending = None
        for i, line in enumerate(lines):
            m = INJECT_RE.match(line)
            if m:
                meta["inject"] = m.group(1)
                meta["modname"] = m.group(2) or "verif_kani"
            m = NEEDS_RE.match(line)
            if m:
                meta["needs"] += m.group(1).split()
            m = APPEND_RE.match(line)
            if m:
                meta["append"].append((m.group(1), m.group(2)))
            m = HARNESS_RE.match(line)
            if m:
                pending = _parse_kv(m.group(1))
                continue
            if pending is not None:
                fm = re.match(r"\s*(?:pub(?:\([a-z]+\))?\s+)?fn\s+(\w+)\s*\(", line)
                if fm:
                    name = fm.group(1)
                    # clause texts: assert messages inside this fn (until next "// @harness" or EOF)
                    clauses = []
                    for l2 in lines[i:]:
                        if HARNESS_RE.match(l2):
                            break
                        clauses += re.findall(r'assert!\(.*?,\s*"([^"]+)"\s*\)', l2)
                    harnesses[name] = KHarness(
                        full="?", name=name, file=p.name, props=pending.get("property", "").split(","),
                        fn=pending.get("fn", "?"), kind=pending.get("kind", "proof"),
                        tier=pending.get("tier", "quick"), cfg=pending.get("cfg", "debug"),
                        domain=pending.get("domain", ""), timeout=int(pending.get("timeout", "300")),
                        clauses=clauses)
                    pending = None
        files[p.name] = meta
    for h in harnesses.values():
        meta = files[h.file]
        mp = (meta["inject"] or "").removeprefix("src/").removesuffix(".rs").removesuffix("/mod")
        mp = "" if mp == "lib" else mp.replace("/", "::")
        h.full = "::".join(x for x in (mp, meta["modname"], h.name) if x)
    return harnesses, files


def kani_files_closure(files_meta: dict, roots: set) -> list:
    todo, seen = list(roots), []
    while todo:
        f = todo.pop()
        if f in seen:
            continue
        seen.append(f)
        for n in files_meta[f]["needs"]:
            todo.append(n)
    return seen


def inject_kani(scratch: Scratch, files_meta: dict, file_names: list, thorough: bool, extra_test: dict | None = None):
    """Copy harness files into the scratch dir and append one `mod` line per file to the real source file."""
    kdir = scratch.dir / "kani"
    kdir.mkdir(exist_ok=True)
    (kdir / "tier.rs").write_text(f"#[allow(dead_code)] pub(crate) const THOROUGH: bool = {'true' if thorough else 'false'};\n")
    injected = []
    for fn in file_names:
        meta = files_meta[fn]
        if not meta["inject"]:
            raise RuntimeError(f"{fn}: no '// @inject <src file>' line")
        text = (VERIF / "kani" / fn).read_text()
        if extra_test and extra_test.get("file") == fn:
            text += "\n" + extra_test["code"] + "\n"
        (kdir / fn).write_text(text)
        target = scratch.repo / meta["inject"]
        if not target.exists():
            raise LostAnchor(f"source file {meta['inject']} not found in /repo")
        with open(target, "a") as f:
            f.write(f'\n#[cfg(kani)] #[path = "{kdir / fn}"] pub(crate) mod {meta["modname"]};\n')
        injected.append(f'{meta["inject"]} += mod {meta["modname"]} ({fn})')
        for tgt, line in meta["append"]:
            with open(scratch.repo / tgt, "a") as f:
                f.write(f"\n#[cfg(kani)] {line}\n")
            injected.append(f"{tgt} += #[cfg(kani)] {line}")
    return injected


class LostAnchor(Exception):
    pass


def _kani_env(scratch: Scratch, cfg: str) -> dict:
    env = dict(os.environ)
    env.update(ENV_OFFLINE)
    env["TMPDIR"] = str(scratch.dir / "tmp")
    env["CARGO_TARGET_DIR"] = str(scratch.dir / f"target-{cfg}")
    if cfg == "release":
        env["RUSTFLAGS"] = "-C debug-assertions=off"
    else:
        env.pop("RUSTFLAGS", None)
    return env


def seed_target_cache(scratch: Scratch, cfg: str):
    """Pre-populate the scratch target dir with dependency artifacts built by setup (pure optimisation)."""
    src = CACHE / f"kani-target-{cfg}"
    dst = scratch.dir / f"target-{cfg}"
    if src.is_dir() and not dst.exists():
        subprocess.run(["cp", "-a", "--reflink=auto", str(src), str(dst)], check=False)


THREAD_RE = re.compile(r"^Thread (\d+): ?(.*)$")


def parse_kani_terse(out: str) -> dict:
    """harness (last path segment) -> dict(status, time, checks, failed, covers_sat, covers_total, raw)."""
    results, cur_by_thread, chunks = {}, {}, []
    cur = None
    for line in out.splitlines():
        m = THREAD_RE.match(line)
        if m:
            cur = {"thread": m.group(1), "lines": [m.group(2)]}
            chunks.append(cur)
        elif line.startswith("Manual Harness Summary") or line.startswith("Complete - "):
            cur = None
        elif cur is not None:
            cur["lines"].append(line)
        else:
            # single-threaded output has no Thread prefix
            m2 = re.match(r"^Checking harness (\S+)\.\.\.", line)
            if m2:
                cur = {"thread": "0", "lines": [line]}
                chunks.append(cur)
    for ch in chunks:
        text = "\n".join(ch["lines"])
        m = re.search(r"Checking harness (\S+?)\.\.\.", text)
        if m:
            cur_by_thread[ch["thread"]] = m.group(1)
            if "VERIFICATION:-" not in text:
                continue
        if "VERIFICATION:-" in text:
            full = cur_by_thread.get(ch["thread"], "?")
            name = full.split("::")[-1]
            r = {"full": full, "raw": text, "failed": [], "checks": 0, "covers_sat": 0, "covers_total": 0, "time": 0.0}
            m = re.search(r"\*\* (\d+) of (\d+) failed", text)
            if m:
                r["checks"] = int(m.group(2))
            m = re.search(r"\*\* (\d+) of (\d+) cover properties satisfied", text)
            if m:
                r["covers_sat"], r["covers_total"] = int(m.group(1)), int(m.group(2))
            m = re.search(r"Verification Time: ([0-9.]+)s", text)
            if m:
                r["time"] = float(m.group(1))
            for fm in re.finditer(r'Failed Checks: (.*)\n File: "([^"]*)", line (\d+), in (\S+)', text):
                r["failed"].append({"desc": fm.group(1).strip().strip('"'), "file": fm.group(2), "line": int(fm.group(3)), "in": fm.group(4)})
            for fm in re.finditer(r"Failed Checks: (.*)$", text, re.M):
                d = fm.group(1).strip().strip('"')
                if not any(x["desc"] == d for x in r["failed"]):
                    r["failed"].append({"desc": d, "file": "", "line": 0, "in": ""})
            if "CBMC timed out" in text:
                r["status"] = "timeout"
            elif "VERIFICATION:- SUCCESSFUL" in text:
                r["status"] = "success"
            elif r["failed"]:
                r["status"] = "failed"
            else:
                r["status"] = "error"
            results[name] = r
    return results


UNSUPPORTED_PAT = re.compile(r"not currently supported by Kani|unsupported_construct|unwinding assertion", re.I)


def run_kani(scratch: Scratch, cfg: str, hs: list, jobs: int | None = None) -> tuple[dict, str, float]:
    """Build once, run all harnesses in `hs` (KHarness list, same cfg). Returns (results, raw output, wall)."""
    env = _kani_env(scratch, cfg)
    seed_target_cache(scratch, cfg)
    tmo = max(h.timeout for h in hs)
    cmd = ["cargo", "kani", "--lib", "-Z", "stubbing", "-Z", "function-contracts", "-Z", "unstable-options",
           "--harness-timeout", f"{tmo}s", "--output-format", "terse", "-j", str(jobs or min(NCPU, max(1, len(hs))))]
    for h in hs:
        cmd += ["--harness", h.full]
    cmd += ["--exact"]
    t0 = time.time()
    p = subprocess.run(cmd, cwd=scratch.repo, env=env, stdout=subprocess.PIPE, stderr=subprocess.STDOUT, text=True,
                       timeout=tmo * 3 + 900)
    wall = time.time() - t0
    return parse_kani_terse(p.stdout), p.stdout, wall


def kani_cmdline(cfg: str) -> str:
    pre = 'RUSTFLAGS="-C debug-assertions=off" ' if cfg == "release" else ""
    return (f"{pre}CARGO_NET_OFFLINE=true cargo kani --lib -Z stubbing -Z function-contracts -Z unstable-options "
            f"--harness-timeout <t>s --output-format terse -j N --harness <h>...   (cwd = scratch copy of /repo with "
            f"`#[cfg(kani)] mod verif_kani;` lines appended)")


def kani_playback_test(scratch: Scratch, cfg: str, h: KHarness, cap: int = 240) -> tuple[str | None, str]:
    """Re-run one failing harness with concrete playback; return (generated #[test] source or None, raw output)."""
    env = _kani_env(scratch, cfg)
    tmo = min(h.timeout, cap)
    cmd = ["cargo", "kani", "--lib", "-Z", "stubbing", "-Z", "function-contracts", "-Z", "unstable-options",
           "-Z", "concrete-playback", "--concrete-playback=print", "--harness-timeout", f"{tmo}s",
           "--harness", h.full, "--exact"]
    try:
        p = subprocess.run(cmd, cwd=scratch.repo, env=env, stdout=subprocess.PIPE, stderr=subprocess.STDOUT, text=True,
                           timeout=tmo + 300)
    except subprocess.TimeoutExpired as e:
        return None, f"playback generation timed out: {e}"
    out = p.stdout
    m = re.search(r"```\n(/// Test generated for harness.*?\n})\n```", out, re.S)
    if not m:
        m = re.search(r"(#\[test\]\s*\nfn kani_concrete_playback_\w+\(\) \{.*?\n\})", out, re.S)
    return (m.group(1) if m else None), out


def kani_run_playback(scratch: Scratch, cfg: str, test_name: str) -> tuple[int, str]:
    env = _kani_env(scratch, cfg)
    cmd = ["cargo", "kani", "playback", "-Z", "concrete-playback", "--lib", "--", test_name, "--nocapture"]
    p = subprocess.run(cmd, cwd=scratch.repo, env=env, stdout=subprocess.PIPE, stderr=subprocess.STDOUT, text=True,
                       timeout=1800)
    return p.returncode, p.stdout


# ----------------------------------------------------------------------------------------------------
# Engine V: Verus on mechanically extracted functions
# ----------------------------------------------------------------------------------------------------
def run_verus(path: Path, timeout: int = 300, rlimit: int | None = None, seed: int | None = None) -> tuple[dict, str, float]:
    cmd = ["verus", str(path), "--output-json", "--time", "--multiple-errors", "50", "--triggers-mode", "silent"]
    if rlimit:
        cmd += ["--rlimit", str(rlimit)]
    if seed is not None:
        cmd += ["--smt-option", f"smt.random_seed={seed}", "--smt-option", f"sat.random_seed={seed}"]
    env = dict(os.environ)
    t0 = time.time()
    try:
        p = subprocess.run(cmd, stdout=subprocess.PIPE, stderr=subprocess.PIPE, text=True, timeout=timeout, env=env,
                           cwd=path.parent)
    except subprocess.TimeoutExpired:
        return {"timeout": True}, "verus timed out", time.time() - t0
    wall = time.time() - t0
    js = {}
    try:
        # stdout is one JSON object (possibly preceded by noise)
        i = p.stdout.index("{")
        js = json.loads(p.stdout[i:])
    except Exception:
        js = {}
    js["_rc"] = p.returncode
    return js, p.stderr, wall


# ----------------------------------------------------------------------------------------------------
# known findings
# ----------------------------------------------------------------------------------------------------
def load_known_findings() -> list:
    out = []
    f = VERIF / "known_findings.txt"
    if not f.exists():
        return out
    for line in f.read_text().splitlines():
        line = line.strip()
        m = re.match(r"known:\s+property=(\S+)\s+obligation=(.+?)\s+::\s+(.*)$", line)
        if m:
            out.append({"property": m.group(1), "obligation": m.group(2).strip(), "what": m.group(3)})
    return out


def scan_assumptions(text: str) -> list:
    """Mechanical scan of generated/injected text for everything that is assumed rather than proved."""
    found = []
    pats = [r"\bassume\s*\(", r"\badmit\s*\(", r"external_body", r"assume_specification", r"kani::assume", r"kani::stub",
            r"external_fn_specification", r"\bunsafe\b"]
    lines = text.splitlines()
    for i, line in enumerate(lines, 1):
        s = line.strip()
        if s.startswith("//"):
            continue
        for p in pats:
            if re.search(p, s):
                if re.search(r"external_body|assume_specification", s) and "fn " not in s:
                    # Verus: report the declaration the attribute sits on -- its signature and contract ARE the assumption
                    decl = []
                    for nxt in lines[i:i + 8]:
                        t = nxt.strip()
                        if not t or t.startswith("//") or t.startswith("#["):
                            continue
                        decl.append(t)
                        if "{" in t or t.endswith(";"):
                            break
                    d = " ".join(decl)
                    d = d.split("{ unimplemented!()")[0].strip()
                    found.append(("assumed contract: " + d)[:400])
                else:
                    found.append(s[:160])
                break
    return found
