"""Engine V: Verus on functions extracted mechanically from /repo/src on every run (see DESIGN.md section 2.2)."""
from __future__ import annotations
from dataclasses import dataclass, field

@dataclass
class VUnit:
    name: str
    props: list
    assumptions_found: list = field(default_factory=list)

VUNITS: dict = {}

def run_vunit(u, scratch, tier):
    raise NotImplementedError
