"""Engine V: Verus on functions extracted mechanically from /repo/src on every run (DESIGN.md section 2.2).

A unit (verus/units/<name>.py) lists the functions to cut out of one or more source files, the contract clauses to
splice in (keyed by function name and loop ordinal) and the syntactic rewrites (closed list R1..R10) to apply.
The generated file is  preamble + extracted items + auto-generated vacuity probes + epilogue, written to
evidence/generated/<unit>.rs so that it can be diffed against the source.
"""
from __future__ import annotations

import importlib.util
import re
import time
from dataclasses import dataclass, field
from pathlib import Path

from . import core
from .core import VERIF, LostAnchor, Obligation, log

import os
GEN_DIR = Path(os.environ.get("VERIF_OUT", str(VERIF))) / "evidence" / "generated"


# ----------------------------------------------------------------------------------------------------
# a small Rust-token-aware scanner (strings, raw strings, chars vs lifetimes, comments)
# ----------------------------------------------------------------------------------------------------
def tokenize(src: str):
    """Yield (kind, text, start, end); kind in {ws, comment, str, char, ident, num, punct, lifetime}."""
    i, n = 0, len(src)
    while i < n:
        c = src[i]
        if c.isspace():
            j = i
            while j < n and src[j].isspace():
                j += 1
            yield ("ws", src[i:j], i, j)
            i = j
        elif src.startswith("//", i):
            j = src.find("\n", i)
            j = n if j < 0 else j
            yield ("comment", src[i:j], i, j)
            i = j
        elif src.startswith("/*", i):
            depth, j = 1, i + 2
            while j < n and depth:
                if src.startswith("/*", j):
                    depth += 1
                    j += 2
                elif src.startswith("*/", j):
                    depth -= 1
                    j += 2
                else:
                    j += 1
            yield ("comment", src[i:j], i, j)
            i = j
        elif c == '"' or (c in "br" and re.match(r'(b?r#*"|b")', src[i:i + 8])):
            m = re.match(r'b?r(#*)"', src[i:])
            if m:
                close = '"' + m.group(1)
                j = src.find(close, i + len(m.group(0)))
                j = n if j < 0 else j + len(close)
            else:
                j = i + (2 if c == "b" else 1)
                while j < n and src[j] != '"':
                    j += 2 if src[j] == "\\" else 1
                j += 1
            yield ("str", src[i:j], i, j)
            i = j
        elif c == "'" or (c == "b" and src.startswith("b'", i)):
            k = i + (2 if c == "b" else 1)
            # char literal: 'x' or '\..'; lifetime: 'ident not followed by '
            m = re.match(r"(\\(?:x[0-9a-fA-F]{2}|u\{[0-9a-fA-F_]+\}|.)|[^\\'])'", src[k:])
            if m:
                j = k + len(m.group(0))
                yield ("char", src[i:j], i, j)
            else:
                m2 = re.match(r"[A-Za-z_][A-Za-z0-9_]*", src[k:])
                j = k + (len(m2.group(0)) if m2 else 0)
                yield ("lifetime", src[i:j], i, j)
            i = j
        elif c.isalpha() or c == "_":
            j = i
            while j < n and (src[j].isalnum() or src[j] == "_"):
                j += 1
            yield ("ident", src[i:j], i, j)
            i = j
        elif c.isdigit():
            j = i
            while j < n and (src[j].isalnum() or src[j] in "._"):
                if src[j] == "." and (j + 1 >= n or not src[j + 1].isdigit()):
                    break
                j += 1
            yield ("num", src[i:j], i, j)
            i = j
        else:
            yield ("punct", c, i, i + 1)
            i += 1


def _sig_tokens(src: str):
    return [t for t in tokenize(src) if t[0] not in ("ws", "comment")]


def find_fn(src: str, name: str, impl: str | None = None) -> tuple[int, int, int]:
    """Return (start_of_fn_keyword_with_qualifiers, index_of_body_open_brace, index_after_body_close_brace)."""
    toks = _sig_tokens(src)
    lo, hi = 0, len(src)
    if impl:
        # locate `impl ... <impl> ... {` block (first whose header contains the identifier `impl` name and no ` for ` trait unless given as "Trait for Type")
        want = impl.split()
        for idx, t in enumerate(toks):
            if t[0] == "ident" and t[1] == "impl":
                # header until '{'
                j = idx
                hdr = []
                while j < len(toks) and not (toks[j][0] == "punct" and toks[j][1] == "{"):
                    hdr.append(toks[j][1])
                    j += 1
                hdr_idents = [h for h in hdr if re.match(r"[A-Za-z_]", h)]
                has_for = "for" in hdr_idents
                if ("for" in want) == has_for and all(w in hdr_idents for w in want):
                    # match braces
                    depth, k = 0, j
                    while k < len(toks):
                        if toks[k][0] == "punct" and toks[k][1] == "{":
                            depth += 1
                        elif toks[k][0] == "punct" and toks[k][1] == "}":
                            depth -= 1
                            if depth == 0:
                                break
                        k += 1
                    lo, hi = toks[j][2], toks[k][3]
                    # is the fn inside this block?
                    if re.search(r"\bfn\s+" + re.escape(name) + r"\b", src[lo:hi]):
                        break
                    lo, hi = 0, len(src)
        else:
            raise LostAnchor(f"impl block '{impl}' containing fn {name} not found")
    for idx, t in enumerate(toks):
        if t[2] < lo or t[3] > hi:
            continue
        if t[0] == "ident" and t[1] == "fn" and idx + 1 < len(toks) and toks[idx + 1][1] == name:
            # qualifiers before fn
            s = idx
            while s > 0 and toks[s - 1][0] == "ident" and toks[s - 1][1] in ("pub", "const", "unsafe", "async", "extern"):
                s -= 1
            # pub(crate)
            if s > 0 and toks[s - 1][1] == ")" and s >= 4 and toks[s - 4][1] == "pub":
                s -= 4
            # body open brace: first '{' at paren/bracket/angle depth 0 after the parameter list
            depth, k = 0, idx
            while k < len(toks):
                tx = toks[k][1] if toks[k][0] == "punct" else None
                if tx in ("(", "["):
                    depth += 1
                elif tx in (")", "]"):
                    depth -= 1
                elif tx == "{" and depth == 0:
                    break
                elif tx == ";" and depth == 0:
                    raise LostAnchor(f"fn {name} has no body")
                k += 1
            open_i = toks[k][2]
            d, m = 0, k
            while m < len(toks):
                tx = toks[m][1] if toks[m][0] == "punct" else None
                if tx == "{":
                    d += 1
                elif tx == "}":
                    d -= 1
                    if d == 0:
                        break
                m += 1
            return toks[s][2], open_i, toks[m][3]
    raise LostAnchor(f"fn {name} not found" + (f" in impl {impl}" if impl else ""))


def loop_sites(body: str) -> list[tuple[int, int]]:
    """Positions (keyword_start, body_open_brace) of while/loop/for statements in order of appearance."""
    toks = _sig_tokens(body)
    out = []
    for idx, t in enumerate(toks):
        if t[0] == "ident" and t[1] in ("while", "loop", "for"):
            if t[1] == "for" and idx > 0 and toks[idx - 1][1] in ("<", "impl"):  # `for<'a>` / `impl X for Y`
                continue
            depth, k = 0, idx + 1
            while k < len(toks):
                tx = toks[k][1] if toks[k][0] == "punct" else None
                if tx in ("(", "["):
                    depth += 1
                elif tx in (")", "]"):
                    depth -= 1
                elif tx == "{" and depth == 0:
                    out.append((t[2], toks[k][2]))
                    break
                k += 1
    return out


# ----------------------------------------------------------------------------------------------------
# unit description
# ----------------------------------------------------------------------------------------------------
@dataclass
class Rw:
    """One application of a rewrite rule from the closed list (DESIGN.md section 2.2)."""
    rule: str            # R1..R10
    pattern: str         # regex
    repl: str
    count: int = 0       # 0 = all
    min_matches: int = 1  # fewer matches => lost anchor (undecided)
    flags: int = re.S


@dataclass
class Fn:
    name: str
    source: str | None = None        # overrides unit source
    impl: str | None = None
    sig: str | None = None           # replacement signature (R4/R2: retyped params, &self -> &mut self, named return)
    expect_sig: str | None = None    # regex the ORIGINAL signature must match (guards the override)
    requires: list = field(default_factory=list)
    ensures: list = field(default_factory=list)
    loops: dict = field(default_factory=dict)     # ordinal(1-based) -> {"invariant": [...], "decreases": "..."}
    rewrites: list = field(default_factory=list)
    inserts: list = field(default_factory=list)   # (regex, ordinal, text) : insert text before the k-th line matching regex
    vacuity: str | None = None       # parameter list for the auto-generated vacuity probe ("" = no probe)
    vacuity_subst: list = field(default_factory=list)  # [(from, to)] textual substitutions applied to requires
    real_name: str | None = None     # name reported in evidence (e.g. "Lexer::scan_number")
    attrs: str = ""
    decreases: str | None = None     # fn-level decreases (recursion)
    label: str | None = None         # obligation name when several extracted functions share a name (trait impls)
    captures: dict = field(default_factory=dict)   # name -> regex over the ORIGINAL signature+body; `${name}` in sig/clauses/invariants is
                                                   # replaced by group(1) ("" for an unmatched optional group): names of locals are the code's own


@dataclass
class Const:
    name: str
    source: str | None = None
    nth: int = 1          # which definition (cfg-dependent constants are defined more than once)


@dataclass
class Raw:
    text: str


@dataclass
class Enum:
    """Copy `enum NAME { .. }` (variants only; attributes, comments and visibility dropped) from a source file."""
    name: str
    source: str | None = None
    derive: str = "#[derive(PartialEq, Eq, Clone, Copy)]"
    rewrites: list = field(default_factory=list)   # applied to the variant list (payload types the unit abstracts)
    generics: str = ""   # generic parameter list to keep on the copied enum (e.g. "<'ast>"); the source's own list is dropped
    eq: bool = False   # payload-free enum: emit `PartialEq` with its structural-equality spec (what #[derive(PartialEq)] means)


@dataclass
class Struct:
    """Copy `struct NAME { fields }` from a source file (attributes/comments dropped, fields made pub)."""
    name: str
    source: str | None = None
    derive: str = "#[derive(Clone, Copy)]"


@dataclass
class Block:
    """Cut the `{ .. }` block that follows the first match of `anchor` inside fn `within` and wrap it as a function (rewrite R11b).
    What is dropped is exactly what the rewrites say; the wrapper adds `prologue` before and `epilogue` after the block."""
    name: str                        # name of the generated function
    within: str                      # enclosing real function
    anchor: str                      # regex; the block is the first `{` at/after the end of its match
    sig: str
    source: str | None = None
    impl: str | None = None
    prologue: str = ""
    epilogue: str = ""
    requires: list = field(default_factory=list)
    ensures: list = field(default_factory=list)
    rewrites: list = field(default_factory=list)
    real_name: str | None = None
    arm: bool = False                # the anchor ends with `=>`: take the whole arm expression (block or not) as the body
    expand_or_guards: int = 0        # R10c: number of or-pattern+guard arms of the block's match to expand (0 = rule not applied)


@dataclass
class VUnit:
    name: str
    props: list
    source: str
    preamble: str
    items: list
    epilogue: str = ""
    rewrites_doc: list = field(default_factory=list)
    trusted: list = field(default_factory=list)
    rlimit: int | None = None
    timeout: int = 300
    assumptions_found: list = field(default_factory=list)
    global_rewrites: list = field(default_factory=list)
    lemma_obligations: list = field(default_factory=list)   # names of proof fns in preamble/epilogue reported as obligations
    # (callee, source file, [functions whose call of it is verified in this unit]): a function with a precondition that its callers must
    # establish is only as safe as ALL its call sites; call sites are enumerated mechanically and one in a function that is not under
    # contract here is an UNDISCHARGED precondition (failed obligation), not an assumption
    callers_closed: list = field(default_factory=list)


R1_PATTERNS = [
    (r"#\[(?:inline(?:\([a-z]+\))?|cold|must_use|allow\([^\]]*\))\]\s*", ""),
]


def strip_r1(text: str) -> str:
    for p, r in R1_PATTERNS:
        text = re.sub(p, r, text)
    # doc comments and ordinary comments are dropped token-aware
    out = []
    for k, t, s, e in tokenize(text):
        if k == "comment":
            continue
        out.append(t)
    return "".join(out)


def extract_fn(repo: Path, unit: VUnit, f: Fn) -> tuple[str, dict]:
    path = repo / (f.source or unit.source)
    if not path.exists():
        raise LostAnchor(f"{path} missing")
    src = path.read_text()
    start, open_i, end = find_fn(src, f.name, f.impl)
    sig_text = src[start:open_i]
    body = src[open_i:end]
    if f.expect_sig and not re.search(f.expect_sig, re.sub(r"\s+", " ", sig_text)):
        raise LostAnchor(f"fn {f.name}: signature changed: {' '.join(sig_text.split())!r} does not match {f.expect_sig!r}")
    info = {"file": str(f.source or unit.source), "orig_lines": (src.count("\n", 0, start) + 1, src.count("\n", 0, end) + 1),
            "rewrites": []}
    if f.captures:
        import copy
        vals = {}
        for name, rx in f.captures.items():
            pres = None
            if isinstance(rx, tuple):          # (regex, text when group(1) matched, text when it did not)
                rx, pres, absent = rx
            m = re.search(rx, sig_text + body, re.S)
            if not m:
                raise LostAnchor(f"fn {f.name}: capture {name} /{rx}/ not found")
            vals[name] = (m.group(1) or "") if pres is None else (pres if m.group(1) else absent)
        def sub(t):
            for k, v in vals.items():
                t = t.replace("${" + k + "}", v)
            return t
        f = copy.copy(f)
        f.sig = sub(f.sig) if f.sig else f.sig
        f.requires = [sub(x) for x in f.requires]
        f.ensures = [sub(x) for x in f.ensures]
        f.loops = {k: {kk: ([sub(x) for x in vv] if isinstance(vv, list) else sub(vv)) for kk, vv in v.items()} for k, v in f.loops.items()}
        f.inserts = [tuple(sub(x) if isinstance(x, str) and i == 2 else x for i, x in enumerate(ins)) for ins in f.inserts]
        info["rewrites"].append("captures: " + ", ".join(f"{k}={v!r}" for k, v in vals.items()))
    # ---- loops first (ordinals refer to the ORIGINAL text)
    sites = loop_sites(body)
    edits = []
    for ordinal, spec in f.loops.items():
        if ordinal < 1 or ordinal > len(sites):
            raise LostAnchor(f"fn {f.name}: loop #{ordinal} not found (function has {len(sites)} loops)")
        kw, brace = sites[ordinal - 1]
        parts = []
        if spec.get("invariant_except_break"):
            parts.append("invariant_except_break " + ", ".join(spec["invariant_except_break"]) + ",")
        if spec.get("invariant"):
            parts.append("invariant " + ", ".join(spec["invariant"]) + ",")
        if spec.get("ensures"):
            parts.append("ensures " + ", ".join(spec["ensures"]) + ",")
        if spec.get("decreases"):
            parts.append("decreases " + spec["decreases"] + ",")
        edits.append((brace, "\n/*@loop%d*/ %s\n" % (ordinal, " ".join(parts))))
    if len(sites) != f.__dict__.get("_expected_loops", len(sites)):
        pass
    for pos, text in sorted(edits, reverse=True):
        body = body[:pos] + text + body[pos:]
    body = strip_r1(body)
    # ---- rewrites
    for rw in list(unit.global_rewrites) + list(f.rewrites):
        new, n = re.subn(rw.pattern, rw.repl, body, count=rw.count, flags=rw.flags)
        if n < rw.min_matches:
            raise LostAnchor(f"fn {f.name}: rewrite {rw.rule} /{rw.pattern}/ matched {n} time(s), expected >= {rw.min_matches}")
        if n:
            info["rewrites"].append(f"{rw.rule}: /{rw.pattern}/ -> '{rw.repl}' x{n}")
        body = new
    body, n_exp = expand_all_or_guard(body)
    if n_exp:
        info["rewrites"].append(f"R10c: or-pattern+guard arms expanded x{n_exp}")
    # ---- inserts
    for ins in f.inserts:
        regex, ordinal, text = ins[0], ins[1], ins[2]
        where = ins[3] if len(ins) > 3 else "before"
        lines = body.split("\n")
        hits = [i for i, l in enumerate(lines) if re.search(regex, l)]
        if len(hits) < ordinal:
            raise LostAnchor(f"fn {f.name}: insert anchor /{regex}/ #{ordinal} not found")
        lines.insert(hits[ordinal - 1] + (1 if where == "after" else 0), text)
        body = "\n".join(lines)
    # ---- signature
    if f.sig:
        sig = f.sig
    else:
        sig = strip_r1(sig_text)
        sig = re.sub(r"^\s*pub(\([a-z]+\))?\s+", "", sig.strip())
        sig = re.sub(r"->\s*(.+?)\s*$", r"-> (ret: \1)", sig.strip(), flags=re.S)
    clauses = ""
    if f.requires:
        clauses += "\n    requires\n        " + ",\n        ".join(f.requires) + ","
    if f.ensures:
        clauses += "\n    ensures\n        " + ",\n        ".join(f.ensures) + ","
    if f.decreases:
        clauses += "\n    decreases " + f.decreases + ","
    text = f"{f.attrs}{sig}{clauses}\n{body}\n"
    return text, info


def extract_struct(repo: Path, unit: VUnit, e: Struct) -> str:
    src = (repo / (e.source or unit.source)).read_text()
    m = re.search(r"\bstruct\s+" + re.escape(e.name) + r"\s*\{", src)
    if not m:
        raise LostAnchor(f"struct {e.name} not found")
    j = src.find("}", m.end())
    body = strip_r1(src[m.end() - 1:j + 1])
    body = re.sub(r"(^|\n)(\s*)(?:pub(?:\([a-z]+\))?\s+)?(\w+)\s*:", r"\1\2pub \3:", body)
    return f"{e.derive}\npub struct {e.name} {body}\n"


def extract_enum(repo: Path, unit: VUnit, e: Enum) -> str:
    src = (repo / (e.source or unit.source)).read_text()
    m = re.search(r"\benum\s+" + re.escape(e.name) + r"\s*(?:<[^>{]*>)?\s*\{", src)
    if not m:
        raise LostAnchor(f"enum {e.name} not found")
    i = m.end() - 1
    depth, j = 0, i
    while j < len(src):
        if src[j] == "{":
            depth += 1
        elif src[j] == "}":
            depth -= 1
            if depth == 0:
                break
        j += 1
    body = strip_r1(src[i:j + 1])
    for rw in e.rewrites:
        body, n = re.subn(rw.pattern, rw.repl, body, count=rw.count, flags=rw.flags)
        if n < rw.min_matches:
            raise LostAnchor(f"enum {e.name}: rewrite {rw.rule} /{rw.pattern}/ matched {n} time(s), expected >= {rw.min_matches}")
    text = f"{e.derive}\npub enum {e.name}{e.generics} {body}\n"
    if e.eq:
        variants = re.findall(r"\b([A-Z]\w*)\s*,", body.strip()[1:-1] + ",")
        if not variants or re.search(r"[({]", body.strip()[1:-1]):
            raise LostAnchor(f"enum {e.name}: eq=True needs a payload-free enum")
        arms = " ".join(f"({e.name}::{v}, {e.name}::{v}) => true," for v in variants)
        text += (f"impl vstd::std_specs::cmp::PartialEqSpecImpl for {e.name} {{\n"
                 f"    open spec fn obeys_eq_spec() -> bool {{ true }}\n"
                 f"    open spec fn eq_spec(&self, other: &{e.name}) -> bool {{ *self == *other }}\n}}\n"
                 f"impl PartialEq for {e.name} {{\n    fn eq(&self, other: &{e.name}) -> (r: bool) {{ match (self, other) {{ {arms} _ => false }} }}\n}}\n")
    return text


def expand_or_guard_arms(body: str) -> tuple[str, int]:
    """R10c: Verus rejects a match arm that has both an or-pattern and a guard.  `P1 | P2 if G => B` is rewritten to the arms
    `P1 if G => B, P2 if G => B` (nested alternatives `C(X | Y)` expanded the same way): Rust tries the alternatives in order with the
    same guard and body, so the expansion is the arm's meaning.  `body` is the inside of ONE match block; returns (text, arms expanded)."""
    toks = [t for t in tokenize(body) if t[0] not in ("ws", "comment")]
    out, pos, i, n_exp = [], 0, 0, 0
    OPEN, CLOSE = "([{", ")]}"

    def alts(p: str) -> list[str]:
        ts = [t for t in tokenize(p) if t[0] not in ("ws", "comment")]
        depth, cuts = 0, []
        for t in ts:
            if t[0] == "punct" and t[1] in OPEN:
                depth += 1
            elif t[0] == "punct" and t[1] in CLOSE:
                depth -= 1
            elif t[0] == "punct" and t[1] == "|" and depth == 0:
                cuts.append((t[2], t[3]))
        if cuts:
            parts, a = [], 0
            for c0, c1 in cuts:
                parts.append(p[a:c0].strip())
                a = c1
            parts.append(p[a:].strip())
            return [x for q in parts for x in alts(q)]
        # nested: first parenthesised group holding a depth-1 `|`
        depth, start = 0, None
        for t in ts:
            if t[0] == "punct" and t[1] == "(":
                depth += 1
                if depth == 1:
                    start = t[3]
            elif t[0] == "punct" and t[1] == ")":
                depth -= 1
                if depth == 0 and start is not None:
                    inner = p[start:t[2]]
                    sub = alts(inner)
                    if len(sub) > 1:
                        return [x for a_ in sub for x in alts(p[:start] + a_ + p[t[2]:])]
        return [re.sub(r"\s+", " ", p.strip().rstrip(","))]

    while i < len(toks):
        arm_start = toks[i][2]
        depth, j, if_at, arrow = 0, i, None, None
        while j < len(toks):
            t = toks[j]
            if t[0] == "punct" and t[1] in OPEN:
                depth += 1
            elif t[0] == "punct" and t[1] in CLOSE:
                depth -= 1
            elif depth == 0 and t[0] == "ident" and t[1] == "if" and if_at is None:
                if_at = j
            elif depth == 0 and t[0] == "punct" and t[1] == "=" and j + 1 < len(toks) and toks[j + 1][1] == ">" and toks[j + 1][2] == t[3]:
                arrow = j
                break
            j += 1
        if arrow is None:
            break
        k = arrow + 2
        if k < len(toks) and toks[k][1] == "{":
            depth = 0
            while k < len(toks):
                if toks[k][1] == "{":
                    depth += 1
                elif toks[k][1] == "}":
                    depth -= 1
                    if depth == 0:
                        break
                k += 1
            end = toks[k][3]
            if k + 1 < len(toks) and toks[k + 1][1] == ",":
                k += 1
        else:
            depth = 0
            while k < len(toks) and not (depth == 0 and toks[k][1] == ","):
                if toks[k][1] in OPEN:
                    depth += 1
                elif toks[k][1] in CLOSE:
                    depth -= 1
                k += 1
            end = toks[k - 1][3] if k > arrow + 2 else toks[arrow + 1][3]
        arm_end = toks[k][3] if k < len(toks) else len(body)
        if if_at is not None:
            pat = body[arm_start:toks[if_at][2]]
            guard = body[toks[if_at][3]:toks[arrow][2]].strip()
            arm_body = body[toks[arrow + 1][3]:end].strip()
            a = alts(pat)
            if len(a) > 1:
                out.append(body[pos:arm_start])
                out.append("".join(f"{x} if {guard} => {arm_body},\n" for x in a))
                pos = arm_end
                n_exp += 1
        i = k + 1
    out.append(body[pos:])
    return "".join(out), n_exp


def expand_all_or_guard(text: str) -> tuple[str, int]:
    """Apply R10c (expand_or_guard_arms) to every `match .. { .. }` in `text`, innermost first."""
    total = 0
    toks = [t for t in tokenize(text) if t[0] not in ("ws", "comment")]
    # find the LAST match first so that earlier offsets stay valid; nested matches are handled by recursion on the body
    i = 0
    spans = []
    while i < len(toks):
        if toks[i][0] == "ident" and toks[i][1] == "match":
            depth, j = 0, i + 1
            while j < len(toks):
                if toks[j][1] in "([":
                    depth += 1
                elif toks[j][1] in ")]":
                    depth -= 1
                elif toks[j][1] == "{" and depth == 0:
                    break
                j += 1
            if j >= len(toks):
                break
            d, k = 0, j
            while k < len(toks):
                if toks[k][1] == "{":
                    d += 1
                elif toks[k][1] == "}":
                    d -= 1
                    if d == 0:
                        break
                k += 1
            if k >= len(toks):
                break
            spans.append((toks[j][3], toks[k][2]))
            i = k + 1          # outer matches only; inner ones via recursion
        else:
            i += 1
    for a, b in reversed(spans):
        inner, n1 = expand_all_or_guard(text[a:b])
        new, n2 = expand_or_guard_arms(inner)
        total += n1 + n2
        text = text[:a] + new + text[b:]
    return text, total


def extract_block(repo: Path, unit: VUnit, b: Block) -> tuple[str, dict]:
    path = repo / (b.source or unit.source)
    src = path.read_text()
    start, open_i, end = find_fn(src, b.within, b.impl)
    fn_text = src[open_i:end]
    m = re.search(b.anchor, fn_text, re.S)
    if not m:
        raise LostAnchor(f"block {b.name}: anchor /{b.anchor}/ not found in fn {b.within}")
    if b.arm:
        # arm expression: from the end of the anchor to the `,` / closing brace that ends the arm
        i = m.end()
        toks = [t for t in tokenize(fn_text[i:]) if t[0] not in ("ws", "comment")]
        depth, close, first = 0, None, True
        for k, t in enumerate(toks):
            if t[0] == "punct" and t[1] in "([{":
                depth += 1
            elif t[0] == "punct" and t[1] in ")]}":
                depth -= 1
                if depth < 0:
                    close = i + t[2]
                    break
                if depth == 0 and t[1] == "}" and toks[0][1] == "{":
                    close = i + t[3]          # `=> { .. }` : the arm is exactly this block
                    break
            elif t[0] == "punct" and t[1] == "," and depth == 0:
                close = i + t[2]
                break
        if close is None:
            raise LostAnchor(f"block {b.name}: arm end not found")
        body = strip_r1(fn_text[i:close])
        i = i - 1
    else:
        i = fn_text.find("{", m.end() - 1)
        toks = [t for t in tokenize(fn_text[i:]) if t[0] not in ("ws", "comment")]
        depth, close = 0, None
        for t in toks:
            if t[0] == "punct" and t[1] == "{":
                depth += 1
            elif t[0] == "punct" and t[1] == "}":
                depth -= 1
                if depth == 0:
                    close = i + t[3]
                    break
        if close is None:
            raise LostAnchor(f"block {b.name}: unbalanced braces")
        body = strip_r1(fn_text[i + 1:close - 1])
    info = {"file": str(b.source or unit.source), "orig_lines": (src.count("\n", 0, open_i + i) + 1, src.count("\n", 0, open_i + close) + 1), "rewrites": []}
    for rw in list(b.rewrites):
        new, n = re.subn(rw.pattern, rw.repl, body, count=rw.count, flags=rw.flags)
        if n < rw.min_matches:
            raise LostAnchor(f"block {b.name}: rewrite {rw.rule} /{rw.pattern}/ matched {n} time(s), expected >= {rw.min_matches}")
        if n:
            info["rewrites"].append(f"{rw.rule}: /{rw.pattern}/ -> '{rw.repl}' x{n}")
        body = new
    body, n = expand_all_or_guard(body)
    if b.expand_or_guards:
        # the block itself is the inside of a match (its prologue opens it)
        body, n2 = expand_or_guard_arms(body)
        n += n2
        if n < b.expand_or_guards:
            raise LostAnchor(f"block {b.name}: R10c expanded {n} or-pattern+guard arm(s), expected >= {b.expand_or_guards}")
    if n:
        info["rewrites"].append(f"R10c: or-pattern+guard arms expanded x{n}")
    clauses = ""
    if b.requires:
        clauses += "\n    requires\n        " + ",\n        ".join(b.requires) + ","
    if b.ensures:
        clauses += "\n    ensures\n        " + ",\n        ".join(b.ensures) + ","
    text = f"{b.sig}{clauses}\n{{\n{b.prologue}\n{body}\n{b.epilogue}\n}}\n"
    return text, info


def extract_const(repo: Path, unit: VUnit, c: Const) -> str:
    src = (repo / (c.source or unit.source)).read_text()
    ms = list(re.finditer(r"^\s*(?:pub(?:\([a-z]+\))?\s+)?const\s+" + re.escape(c.name) + r"\s*:[^;]*;", src, re.M))
    if len(ms) < c.nth:
        raise LostAnchor(f"const {c.name} (definition #{c.nth}) not found")
    m = ms[c.nth - 1]
    return re.sub(r"^\s*pub(\([a-z]+\))?\s+", "", m.group(0).strip()) + "\n"


def _key(it) -> str:
    return getattr(it, "label", None) or it.name


def generate(repo: Path, unit: VUnit) -> tuple[str, list, dict]:
    """Returns (text, line_map[(first_line,last_line,label)], info)."""
    parts = [("preamble", unit.preamble.strip("\n") + "\n")]
    info = {"functions": {}, "vacuity": []}
    for it in unit.items:
        if isinstance(it, Raw):
            parts.append(("raw", it.text.strip("\n") + "\n"))
        elif isinstance(it, Const):
            parts.append((f"const {it.name}", extract_const(repo, unit, it)))
        elif isinstance(it, Enum):
            parts.append((f"enum {it.name}", extract_enum(repo, unit, it)))
        elif isinstance(it, Struct):
            parts.append((f"struct {it.name}", extract_struct(repo, unit, it)))
        elif isinstance(it, Block):
            text, binfo = extract_block(repo, unit, it)
            info["functions"][it.name] = binfo
            parts.append((f"fn {it.name}", text))
        else:
            text, finfo = extract_fn(repo, unit, it)
            info["functions"][_key(it)] = finfo
            parts.append((f"fn {_key(it)}", text))
            if it.vacuity is not None and it.requires and it.vacuity != "-":
                req = it.requires
                for a, b in it.vacuity_subst:
                    req = [r.replace(a, b) for r in req]
                probe = (f"proof fn vacuity_{_key(it)}({it.vacuity})\n    requires\n        " + ",\n        ".join(req)
                         + ",\n    ensures false,\n{\n}\n")
                parts.append((f"fn vacuity_{_key(it)}", probe))
                info["vacuity"].append(f"vacuity_{_key(it)}")
    parts.append(("epilogue", unit.epilogue.strip("\n") + "\n"))
    out, line_map, line = [], [], 1
    out.append("// GENERATED by /verif/vlib/vextract.py from /repo/src on this run -- do not edit.\n")
    line += 1
    out.append("use vstd::prelude::*;\nverus! {\n")
    line += 2
    for label, text in parts:
        if not text.endswith("\n"):
            text += "\n"
        n = text.count("\n")
        line_map.append((line, line + n - 1, label))
        out.append(text)
        line += n
    out.append("} // verus!\nfn main() {}\n")
    return "".join(out), line_map, info


ERR_RE = re.compile(r"^(error|warning)(\[[A-Z0-9]+\])?: (.*)$")
LOC_RE = re.compile(r"^\s*--> (\S+?):(\d+):(\d+)")
SNIP_RE = re.compile(r"^\s*(\d+)\s*\|\s?(.*)$")


def parse_verus_errors(stderr: str) -> list[dict]:
    errs, cur = [], None
    for line in stderr.splitlines():
        m = ERR_RE.match(line)
        if m:
            if m.group(1) == "error":
                cur = {"msg": m.group(3), "locs": [], "snips": [], "raw": [line]}
                errs.append(cur)
            else:
                cur = None
            continue
        if cur is None:
            continue
        cur["raw"].append(line)
        m = LOC_RE.match(line)
        if m:
            cur["locs"].append(int(m.group(2)))
        m = SNIP_RE.match(line)
        if m:
            cur["snips"].append((int(m.group(1)), m.group(2).strip()))
        elif re.search(r"failed (this|precondition)", line) and cur["snips"]:
            cur["clause"] = cur["snips"][-1][1]
    return [e for e in errs if not e["msg"].startswith("aborting due to")]


def label_of(line_map, line: int) -> str:
    for a, b, lab in line_map:
        if a <= line <= b:
            return lab
    return "?"


def enclosing_fns(src: str) -> list:
    """[(name, body_start, body_end)] for every `fn name ... { .. }` in src (nested fns included), by token brace matching."""
    toks = [t for t in tokenize(src) if t[0] not in ("ws", "comment")]
    out = []
    for i, t in enumerate(toks):
        if t[0] == "ident" and t[1] == "fn" and i + 1 < len(toks) and toks[i + 1][0] == "ident":
            name = toks[i + 1][1]
            j, depth_p = i + 2, 0
            while j < len(toks):
                if toks[j][1] in "([<" and toks[j][0] == "punct":
                    pass
                if toks[j][0] == "punct" and toks[j][1] == ";" :
                    j = None
                    break
                if toks[j][0] == "punct" and toks[j][1] == "{":
                    break
                j += 1
            if j is None or j >= len(toks):
                continue
            d, k = 0, j
            while k < len(toks):
                if toks[k][0] == "punct" and toks[k][1] == "{":
                    d += 1
                elif toks[k][0] == "punct" and toks[k][1] == "}":
                    d -= 1
                    if d == 0:
                        break
                k += 1
            if k < len(toks):
                out.append((name, toks[j][2], toks[k][3]))
    return out


def check_callers_closed(repo: Path, callee: str, source: str, allowed: list) -> tuple[bool, list]:
    src = (repo / source).read_text()
    fns = enclosing_fns(src)
    toks = [t for t in tokenize(src) if t[0] not in ("ws", "comment")]
    sites = []
    for i, t in enumerate(toks):
        if t[0] == "ident" and t[1] == callee and i + 1 < len(toks) and toks[i + 1][1] == "(" and not (i > 0 and toks[i - 1][1] == "fn"):
            inner = [f for f in fns if f[1] <= t[2] < f[2]]
            owner = min(inner, key=lambda f: f[2] - f[1])[0] if inner else "?"
            sites.append((owner, src.count("\n", 0, t[2]) + 1))
    bad = [(o, ln) for o, ln in sites if o not in allowed]
    return (len(sites) > 0 and not bad), sites, bad


def load_units() -> dict:
    units = {}
    d = VERIF / "verus" / "units"
    if not d.is_dir():
        return units
    for p in sorted(d.glob("*.py")):
        spec = importlib.util.spec_from_file_location(f"vunit_{p.stem}", p)
        mod = importlib.util.module_from_spec(spec)
        spec.loader.exec_module(mod)
        u = mod.UNIT
        units[u.name] = u
    return units


VUNITS = load_units()


def run_vunit(u: VUnit, scratch, tier: str):
    """Extract from the scratch copy of /repo (identical to the working tree), verify, classify."""
    repo = scratch.repo
    text, line_map, info = generate(repo, u)        # LostAnchor propagates -> undecided
    GEN_DIR.mkdir(parents=True, exist_ok=True)
    gen_path = scratch.dir / f"{u.name}.rs"
    gen_path.write_text(text)
    (GEN_DIR / f"{u.name}.rs").write_text(text)
    u.assumptions_found = core.scan_assumptions(text)
    js, stderr, wall = core.run_verus(gen_path, timeout=u.timeout, rlimit=u.rlimit)
    vr = js.get("verification-results", {})
    # thorough tier: proof stability.  The same text is re-checked under other solver seeds; a proof that holds under one seed and not
    # another is brittle (it would later fail for no semantic reason) and is reported as UNDECIDED, never as a violation.
    unstable = None
    if tier == "thorough" and vr and not js.get("timeout"):
        for seed in (1, 2, 3):
            js2, _, w2 = core.run_verus(gen_path, timeout=u.timeout, rlimit=u.rlimit, seed=seed)
            wall += w2
            vr2 = js2.get("verification-results", {})
            if js2.get("timeout") or (vr2.get("verified"), vr2.get("errors")) != (vr.get("verified"), vr.get("errors")):
                unstable = f"solver seed {seed}: {vr2.get('verified')} verified / {vr2.get('errors')} errors (seed 0: {vr.get('verified')} / {vr.get('errors')})"
                break
    smt_ms = js.get("times-ms", {}).get("smt", {}).get("smt-run", 0)
    errs = parse_verus_errors(stderr)
    obs = []
    # group errors by function label
    by_label = {}
    hard_errors = []
    for e in errs:
        lab = label_of(line_map, e["locs"][0]) if e["locs"] else "?"
        # the most specific clause text: the last snippet line (Verus prints the failed clause second)
        clause = e.get("clause", "")
        if not clause and e["snips"]:
            clause = e["snips"][0][1]
        kind = e["msg"]
        if re.search(r"postcondition|precondition|invariant|decreases|assertion|overflow|underflow|bounds|recommend|termination|panic|unreachable", kind):
            by_label.setdefault(lab, []).append((kind, clause, "\n".join(e["raw"][:25])))
        else:
            hard_errors.append((lab, kind, "\n".join(e["raw"][:25])))
    fn_items = [it for it in u.items if isinstance(it, (Fn, Block))]
    tool_problem = None
    if js.get("timeout"):
        tool_problem = f"verus timed out after {u.timeout}s"
    elif hard_errors:
        tool_problem = "verus rejected the generated text (unsupported construct / type error):\n" + "\n".join(h[2] for h in hard_errors[:4])
    elif not vr:
        tool_problem = "no verification result from verus:\n" + stderr[-1500:]
    elif unstable:
        tool_problem = "proof unstable under solver seeds (brittle): " + unstable
    nfun = max(1, len(fn_items) + len(u.lemma_obligations))
    for it in fn_items:
        lab = f"fn {_key(it)}"
        loops = getattr(it, "loops", {})
        ob = Obligation(name=f"V:{u.name}:{_key(it)}", engine="verus 0.2026.09.13 / z3", function=it.real_name or f"{(it.source or u.source)}::{it.name}",
                        kind="proof", status="undecided", unit=u.name, time_s=round(smt_ms / 1000.0 / nfun, 3),
                        bound="unbounded (all inputs satisfying the requires clause, all iterations)",
                        clauses=[f"requires {r}" for r in it.requires] + [f"ensures {e}" for e in it.ensures]
                        + [f"loop {k}: invariant {'; '.join(v.get('invariant', []))}; decreases {v.get('decreases')}" for k, v in loops.items()])
        ob.checks = len(it.requires) + len(it.ensures) + sum(len(v.get("invariant", [])) + 1 for v in loops.values()) + 1
        if tool_problem:
            # a recursion without decreases is a *failed obligation* (bounded-stack contract), reported below; everything else undecided
            ob.detail = tool_problem
        elif lab in by_label:
            ob.status = "failed"
            ob.failed_clauses = [f"{k}: {c}" if c else k for k, c, _ in by_label[lab]]
            ob.detail = "\n\n".join(r for _, _, r in by_label[lab])[:4000]
        else:
            ob.status = "discharged"
        obs.append(ob)
    # Verus stops before verification when a loop/recursion lacks a decreases clause: nothing else in the file was checked then
    if not tool_problem and not vr.get("verified") and any("decreases clause" in k for lst in by_label.values() for (k, _, _) in lst):
        for ob in obs:
            if ob.status == "discharged":
                ob.status, ob.detail = "undecided", "not checked: verus stopped at a missing-termination-measure error elsewhere in this unit"
    # lemmas (proof fns written in the unit) as obligations
    for name in u.lemma_obligations:
        lab_hits = [(k, c, r) for lab, lst in by_label.items() for (k, c, r) in lst if name in r]
        ob = Obligation(name=f"V:{u.name}:lemma:{name}", engine="verus 0.2026.09.13 / z3", function=f"(lemma over the contracts) {name}",
                        kind="proof", status="undecided", unit=u.name, bound="unbounded", checks=1)
        if tool_problem:
            ob.detail = tool_problem
        elif lab_hits:
            ob.status, ob.failed_clauses, ob.detail = "failed", [f"{k}: {c}" for k, c, _ in lab_hits], lab_hits[0][2]
        else:
            ob.status = "discharged"
        obs.append(ob)
    # call-site closure of functions whose precondition this unit proves only inside named callers
    for callee, source, allowed in u.callers_closed:
        ob = Obligation(name=f"V:{u.name}:callers:{callee}", engine="verus 0.2026.09.13 / z3 + extractor (call-site enumeration)",
                        function=f"every call site of {callee} in {source}", kind="proof", status="undecided", unit=u.name, checks=1,
                        bound="every call site in the file", clauses=[f"{callee} is called only from {', '.join(allowed)} (where its precondition is proved)"])
        try:
            ok, sites, bad = check_callers_closed(repo, callee, source, allowed)
            if not sites:
                ob.detail = f"no call site of {callee} found (lost anchor)"
            elif bad:
                ob.status = "failed"
                ob.failed_clauses = [f"precondition of {callee} not discharged at its call site in fn {o} ({source}:{ln}): that function is not under contract"
                                     for o, ln in bad]
                ob.detail = "; ".join(ob.failed_clauses)
            else:
                ob.status = "discharged"
                ob.detail = "call sites: " + ", ".join(f"{o}:{ln}" for o, ln in sites)
        except Exception as e:   # noqa
            ob.detail = f"call-site scan failed: {e}"
        obs.append(ob)
    # errors in raw/preamble/epilogue parts that are not attributed: make them visible
    stray = [lab for lab in by_label if not lab.startswith("fn ") or (lab[3:] not in [_key(i) for i in fn_items] and not lab[3:].startswith("vacuity_"))]
    if stray and not tool_problem:
        unattributed = [x for lab in stray for x in by_label[lab] if not any(n in x[2] for n in u.lemma_obligations)]
        if unattributed:
            ob = Obligation(name=f"V:{u.name}:spec-text", engine="verus 0.2026.09.13 / z3", function="(unit preamble/epilogue)", kind="proof",
                            status="undecided", unit=u.name, detail="error inside hand-written spec text:\n" + unattributed[0][2])
            obs.append(ob)
    # vacuity probes must FAIL
    if not tool_problem:
        for v in info["vacuity"]:
            if f"fn {v}" not in by_label:
                ob = Obligation(name=f"V:{u.name}:{v}", engine="verus 0.2026.09.13 / z3", function=v, kind="proof", status="undecided",
                                unit=u.name, detail=f"vacuity guard: `{v}` (requires ... ensures false) was ACCEPTED: the precondition is contradictory")
                obs.append(ob)
    u._last_info = {"verified_fns": vr.get("verified"), "errors": vr.get("errors"), "smt_ms": smt_ms, "wall": wall,
                    "stability": ("seeds 0-3 agree" if tier == "thorough" and not unstable else ("not run (quick tier)" if tier != "thorough" else unstable)),
                    "rewrites": {k: v["rewrites"] for k, v in info["functions"].items()},
                    "source_lines": {k: v["orig_lines"] for k, v in info["functions"].items()}}
    return obs, stderr[-6000:]
