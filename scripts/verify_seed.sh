#!/bin/bash
# developer helper: confirm a seeded change: patch applies, suite (314 stable tests) still passes with it, demo passes without and fails with it.
# usage: verify_seed.sh <Cxx> <k>   -> writes /tmp/seed/verify-<Cxx>-<k>.txt
P=$1; K=$2
OUTD=/tmp/seed/out-$P
RES=/tmp/seed/verify-$P-$K.txt
WT=/tmp/seedverify-$P-$K
export CARGO_TARGET_DIR=/tmp/seedverify-target-$((K % 2))
export CARGO_NET_OFFLINE=true
{
git -C /repo worktree add -q --detach $WT HEAD || exit 3
cd $WT
demo=$(ls $OUTD/demo$K.rs 2>/dev/null | head -1)
mode=tests
if grep -qi "append" $OUTD/notes$K.md 2>/dev/null && grep -q "cfg(test)\|mod tests\|#\[test\]" "$demo" 2>/dev/null && ! grep -q "^use naijascript" "$demo"; then mode=append; fi
target_src=$(grep -o "src/[a-z_/]*\.rs" $OUTD/notes$K.md | head -1)
run_demo() {
  if [ "$mode" = tests ]; then
    cp $demo tests/seed_demo.rs
    timeout 900 cargo test --offline --test seed_demo 2>&1 | tail -5 | grep -E "^test result|error" | head -3
  else
    cat $demo >> $target_src
    timeout 900 cargo test --offline --lib 2>&1 | grep -E "^test result|error(\[|:)" | head -3
    git checkout -q -- $target_src
  fi
}
echo "mode=$mode demo=$demo"
echo "--- demo WITHOUT the change"; run_demo
git apply $OUTD/patch$K.diff && echo "patch applied" || echo "PATCH DOES NOT APPLY"
echo "--- demo WITH the change"; run_demo
rm -f tests/seed_demo.rs
echo "--- suite WITH the change"; /verif/scripts/baseline.sh $WT
cd /; git -C /repo worktree remove --force $WT
} > $RES 2>&1
