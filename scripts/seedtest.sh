#!/bin/bash
# developer helper: run a check against a seeded patch without touching /repo
# usage: seedtest.sh <Cxx> <patch.diff> [tier]
P=$1; PATCH=$2; TIER=${3:-quick}
WT=/tmp/seedwt-$$
git -C /repo worktree add -q --detach $WT HEAD || exit 3
git -C $WT apply $PATCH || { echo "PATCH DOES NOT APPLY"; git -C /repo worktree remove --force $WT; exit 3; }
mkdir -p /tmp/seedout-$$
VERIF_REPO=$WT VERIF_OUT=/tmp/seedout-$$ /verif/check $P --tier $TIER 2>&1 | grep -E "^\s+\[(failed|undecided)|VIOLATION|^OK|UNDECIDED|KNOWN" | cut -c1-400
rc=${PIPESTATUS[0]}
git -C /repo worktree remove --force $WT
rm -rf /tmp/seedout-$$
exit $rc
