#!/bin/bash
# developer helper: run harness(es) from /verif/kani on a scratch copy of /repo with regular output (not used by checks)
# usage: kx.sh <cfg: debug|release> <harness>... ; env KX_FILTER=cat to see all
cfg=$1; shift
S=/tmp/kx-$$; mkdir -p $S; trap "rm -rf $S" EXIT; rsync -a --exclude target --exclude .git /repo/ $S/repo/; mkdir -p $S/kani
cp ${KX_KANI_DIR:-/verif/kani}/*.rs $S/kani/; echo 'pub(crate) const THOROUGH: bool = false;' > $S/kani/tier.rs
for f in ${KX_KANI_DIR:-/verif/kani}/*.rs; do
  inj=$(grep -m1 '^// @inject' $f | awk '{print $3}'); mod=$(grep -m1 '^// @inject' $f | awk '{print $5}'); [ -z "$mod" ] && mod=verif_kani
  [ -n "$inj" ] && echo "#[cfg(kani)] #[path = \"$S/kani/$(basename $f)\"] pub(crate) mod $mod;" >> $S/repo/$inj
  grep '^// @append' $f | while read -r _ _ tgt rest; do echo "#[cfg(kani)] $rest" >> $S/repo/${tgt%:}; done
done
H=""; for h in "$@"; do H="$H --harness $h"; done
cd $S/repo
if [ "$cfg" = release ]; then export RUSTFLAGS="-C debug-assertions=off"; fi
CARGO_TARGET_DIR=/tmp/kx-target-$cfg CARGO_NET_OFFLINE=true timeout ${KX_TIMEOUT:-900} cargo kani --lib -Z stubbing -Z function-contracts -Z unstable-options --harness-timeout ${KX_HT:-600}s $H 2>&1 | ${KX_FILTER:-grep -E "^error|Status: (FAILURE|UNSATISFIABLE|UNREACHABLE|UNDETERMINED)|SUMMARY|\*\*|Failed Checks|VERIFICATION|Verification Time|Checking harness" -B2 -A3}
