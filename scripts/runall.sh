#!/bin/bash
# run every claimed check's quick command on /repo (refreshes evidence/*.json); summary to /tmp/runall.log
cd /verif
LOG=${RUNALL_LOG:-/tmp/runall.log}; : > $LOG
for p in $(python3 -c "import json; print(' '.join(c['property_id'] for c in json.load(open('MANIFEST.json'))['checks']))"); do
  s=$(date +%s)
  out=$(set -o pipefail; ./check $p --tier ${1:-quick} 2>/dev/null | tail -3)
  rc=$?
  echo "$p rc=$rc $(( $(date +%s) - s ))s :: $(echo "$out" | tail -1)" >> $LOG
done
echo DONE >> $LOG
