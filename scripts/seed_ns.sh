#!/bin/bash
# developer helper: confirm a seeded change whose demonstration is a NaijaScript program, and run a check against it.
# usage: seed_ns.sh <Cxx> <dir with patch.diff demo.ns> <out.txt>
P=$1; D=$2; RES=$3
WT=/tmp/seedns-$$
export CARGO_NET_OFFLINE=true
{
git -C /repo worktree add -q --detach $WT ${SEED_BASE:-HEAD} || exit 3
cd $WT
cargo build --offline 2>&1 | tail -1
echo "--- demo WITHOUT the change"; timeout 20 ./target/debug/naija $D/demo.ns < /dev/null 2>&1 | sed 's/\x1b\[[0-9;]*m//g' | grep -v "^$" | head -6; echo "exit=${PIPESTATUS[0]}"
git apply $D/patch.diff && echo "patch applied" || echo "PATCH DOES NOT APPLY"
cargo build --offline 2>&1 | tail -1
echo "--- demo WITH the change"; timeout 20 ./target/debug/naija $D/demo.ns < /dev/null 2>&1 | sed 's/\x1b\[[0-9;]*m//g' | grep -v "^$" | head -6; echo "exit=${PIPESTATUS[0]}"
echo "--- suite WITH the change"; /verif/scripts/baseline.sh $WT
echo "--- check $P WITH the change"
mkdir -p /tmp/seedout-$$
VERIF_REPO=$WT VERIF_OUT=/tmp/seedout-$$ /verif/check $P --tier quick 2>&1 | grep -E "^\s+\[(failed|undecided)|VIOLATION|^OK|UNDECIDED|KNOWN" | cut -c1-300
echo "check_rc=${PIPESTATUS[0]}"
rm -rf /tmp/seedout-$$
cd /; git -C /repo worktree remove --force $WT
} > $RES 2>&1
