#!/bin/bash
# developer helper: run check <Cxx> against every /tmp/seed/out-<Cxx>/patch*.diff ; results to /tmp/seed/result-<Cxx>.txt
P=$1; shift
OUT=/tmp/seed/result-$P.txt; : > $OUT
for f in /tmp/seed/out-$P/patch*.diff; do
  echo "=== $P $(basename $f)" >> $OUT
  /verif/scripts/seedtest.sh ${2:-$P} $f >> $OUT 2>&1
  echo "rc=$?" >> $OUT
done
echo DONE >> $OUT
