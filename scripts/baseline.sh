#!/bin/bash
# Runs the repository's pinned test suite with every verification guard OFF (plain cargo, no cfg flags)
# and compares the result with BASELINE.json's stable_pass list (314 tests).
# usage: baseline.sh [repo_dir]      exit 0 = every stable test passed
set -u
REPO="${1:-/repo}"
cd "$REPO" || exit 2
export CARGO_NET_OFFLINE=true
cargo nextest run --workspace --no-fail-fast --tool-config-file pb:/verif/scripts/nextest.toml --profile pb \
      --test-threads 8 --offline >/dev/null 2>&1
python3 - "$REPO/target/nextest/pb/junit.xml" <<'PY'
import json,sys,xml.etree.ElementTree as ET
stable=set(json.load(open('/root/.vp/BASELINE.json'))['stable_pass'])
ok=set(); failed=set()
for tc in ET.parse(sys.argv[1]).getroot().iter('testcase'):
    tid=(tc.get('classname') or '')+'::'+(tc.get('name') or '')
    if tc.find('failure') is not None or tc.find('error') is not None or tc.find('flakyFailure') is not None: failed.add(tid)
    elif tc.find('skipped') is None: ok.add(tid)
ok-=failed
miss=sorted(t for t in stable if t not in ok)
print(f"passed={len(ok)} failed={len(failed)} stable_total={len(stable)} stable_missing={len(miss)}")
for t in miss[:40]: print("  MISSING", t)
sys.exit(1 if miss else 0)
PY
