#!/bin/bash
# developer helper: generate a verus unit from /repo and run verus on it
python3 - "$1" <<'PY'
import sys
sys.path.insert(0,'/verif')
from vlib.vextract import load_units, generate
from pathlib import Path
import os
u=load_units()[sys.argv[1]]
t,lm,info=generate(Path(os.environ.get('VERIF_REPO','/repo')),u)
os.makedirs('/tmp/vx',exist_ok=True)
open(f'/tmp/vx/{u.name}_gen.rs','w').write(t)
PY
cd /tmp/vx && verus $1_gen.rs ${VARGS:-} 2>&1 | grep -vE "^\s*$" | head -${VHEAD:-60}
