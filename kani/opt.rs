// @inject src/analysis/opt.rs
// @needs bump.rs
// Contracts for src/analysis/opt.rs (property C03): which statements the optimisation plan may list.
#![cfg(not(debug_assertions))]
#![allow(non_snake_case, unused_imports, dead_code, clippy::all)]

use super::*;
use crate::analysis::ids::LocalId;
use crate::arena::verif_bump as bk;

// note_max_reference(max_stmt, local, stmt)   max_stmt[local] becomes the larger of its old value and stmt (NO_REFERENCE = none yet)
// declaration_is_runtime_removable(local, stmt, max_stmt)  <=>  no reachable statement AFTER stmt references the local
// @harness property=C03 fn=opt::note_max_reference+declaration_is_runtime_removable kind=proof tier=quick cfg=release domain="loop-free; table of 3 locals with arbitrary contents; every local index, every statement id below u32::MAX"
#[kani::proof]
fn max_reference__contract() {
    let mut t: [u32; 3] = kani::any();
    let t0 = t;
    let l: u32 = kani::any();
    kani::assume(l < 3);
    let s: u32 = kani::any();
    kani::assume(s < u32::MAX);
    note_max_reference(&mut t, LocalId(l), s);
    let old = t0[l as usize];
    assert!(t[l as usize] == if old == NO_REFERENCE_STMT || old < s { s } else { old }, "post: entry == max(old, stmt), NO_REFERENCE counting as none");
    let k: usize = kani::any();
    kani::assume(k < 3 && k != l as usize);
    assert!(t[k] == t0[k], "frame: other locals untouched");
    let q: u32 = kani::any();
    let removable = declaration_is_runtime_removable(LocalId(l), StmtId(q), &t);
    assert!(removable == (t[l as usize] == NO_REFERENCE_STMT || t[l as usize] <= q), "post: removable <=> no reference with a larger statement id");
    kani::cover!(old == NO_REFERENCE_STMT, "cover: first reference");
    kani::cover!(old != NO_REFERENCE_STMT && old > s, "cover: older reference is later");
    kani::cover!(!removable, "cover: declaration still needed");
}

// OptimizationPlan::contains_removable_stmt / contains_removable_function_def  <=>  membership (the vectors are sorted: postcondition of
// build_optimization_plan's final sort_by_key)
// @harness property=C03 fn=OptimizationPlan::contains_removable_stmt kind=bounded tier=quick cfg=release timeout=600 domain="bounded: 0..=3 strictly increasing symbolic ids; every u32 queried"
#[kani::proof]
#[kani::unwind(6)]
fn plan_membership__contract() {
    let arena = bk::mk_arena(1);
    let rem: [u32; 3] = kani::any();
    let n: usize = kani::any();
    kani::assume(n <= 3 && (n < 2 || rem[0] < rem[1]) && (n < 3 || rem[1] < rem[2]));
    let sv: &'static mut [StmtId; 3] = Box::leak(Box::new([StmtId(rem[0]), StmtId(rem[1]), StmtId(rem[2])]));
    let fv: &'static mut [FunctionId; 3] = Box::leak(Box::new([FunctionId(rem[0]), FunctionId(rem[1]), FunctionId(rem[2])]));
    let plan = OptimizationPlan {
        removable_stmts: unsafe { Vec::from_raw_parts_in(sv.as_mut_ptr(), n, 3, arena) },
        removable_function_defs: unsafe { Vec::from_raw_parts_in(fv.as_mut_ptr(), n, 3, arena) },
    };
    let q: u32 = kani::any();
    let member = (n > 0 && rem[0] == q) || (n > 1 && rem[1] == q) || (n > 2 && rem[2] == q);
    assert!(plan.contains_removable_stmt(StmtId(q)) == member, "post: contains_removable_stmt <=> membership");
    assert!(plan.contains_removable_function_def(FunctionId(q)) == member, "post: contains_removable_function_def <=> membership");
    kani::cover!(member && n == 3, "cover: member of a full plan");
    kani::cover!(!member && n > 0, "cover: non-member");
    std::mem::forget(plan);
}

use crate::analysis::facts::{FunctionInfo, LocalInfo, LocalKind, StmtEffectFacts};
use crate::analysis::ids::ScopeId;
use crate::syntax::parser::Block;
use std::range::Range;

static EMPTY_BLOCK: Block<'static> = Block { stmts: &[], span: Range { start: 0, end: 0 } };
static A_STMT: Stmt<'static> = Stmt::Break { span: Range { start: 0, end: 0 } };

fn leak_vec<T: 'static>(items: Vec<T>, arena: &'static Arena) -> Vec<T, &'static Arena> {
    let n = items.len();
    let b: &'static mut [T] = Box::leak(items.into_boxed_slice());
    unsafe { Vec::from_raw_parts_in(b.as_mut_ptr(), n, n, arena) }
}
fn any_class() -> ExprClass {
    let k: u8 = kani::any();
    kani::assume(k < 3);
    match k {
        0 => ExprClass::PureNoTrap,
        1 => ExprClass::PureMayTrap,
        _ => ExprClass::Impure,
    }
}
fn summary(arena: &'static Arena, available: bool, class: ExprClass, reads: Vec<LocalId>, writes: Vec<LocalId>) -> FunctionSummary<'static> {
    FunctionSummary {
        available,
        direct_callees: Vec::new_in(arena),
        transitive_callees: Vec::new_in(arena),
        direct_capture_reads: Vec::new_in(arena),
        direct_capture_writes: Vec::new_in(arena),
        body_class: ExprClass::PureNoTrap,
        transitive_capture_reads: leak_vec(reads, arena),
        transitive_capture_writes: leak_vec(writes, arena),
        transitive_class: class,
    }
}
fn stmt_facts(arena: &'static Arena, function: u32, class: ExprClass, reads: Vec<LocalId>, writes: Vec<LocalId>, callees: Vec<FunctionId>) -> StmtEffectFacts<'static, 'static> {
    StmtEffectFacts {
        stmt: &A_STMT,
        function: FunctionId(function),
        scope: ScopeId(0),
        reads: leak_vec(reads, arena),
        writes: leak_vec(writes, arena),
        direct_callees: leak_vec(callees, arena),
        expr_class: class,
    }
}

// stmt_effective_class(stmt): a statement may be removed only when it is PureNoTrap, so the class must account for everything a call
//   can do that the caller could observe (C03):
//   Impure  if a direct callee's summary is unavailable, or the callee (transitively) ASSIGNS A CAPTURED VARIABLE -- an effect visible to
//           the caller whatever the class of the expressions the callee evaluates (defect P3, repaired);
//   otherwise the join of the statement's own class with every direct callee's TRANSITIVE class, and at least PureMayTrap as soon as
//   there is a callee at all: a call may never come back (endless loop, runaway recursion), which removal would hide (defect P4, repaired).
// @harness property=C03 fn=opt::stmt_effective_class kind=bounded tier=quick cfg=release timeout=600 domain="bounded: statement with 0..=2 direct callees; every own class, every callee transitive class, availability and presence of captured writes"
#[kani::proof]
#[kani::unwind(6)]
fn stmt_effective_class__contract() {
    let arena = bk::mk_arena(1);
    let mut facts = ProgramFacts::new(arena);
    let own = any_class();
    let (c0, c1) = (any_class(), any_class());
    let (a0, a1): (bool, bool) = (kani::any(), kani::any());
    let (w0, w1): (bool, bool) = (kani::any(), kani::any());
    let ncallees: usize = kani::any();
    kani::assume(ncallees <= 2);
    let callees = match ncallees {
        0 => vec![],
        1 => vec![FunctionId(1)],
        _ => vec![FunctionId(1), FunctionId(0)],
    };
    facts.stmt_effects = leak_vec(vec![stmt_facts(arena, 0, own, vec![], vec![], callees)], arena);
    // the body classes differ from the transitive ones on purpose: only the transitive class may be used
    let writes = |w: bool| if w { vec![LocalId(0)] } else { vec![] };
    let summaries: &'static [FunctionSummary<'static>] =
        Box::leak(vec![summary(arena, a1, c1, vec![], writes(w1)), summary(arena, a0, c0, vec![], writes(w0))].into_boxed_slice());
    let r = stmt_effective_class(StmtId(0), &facts, summaries);
    let step = |acc: ExprClass, avail: bool, cw: bool, c: ExprClass| if !avail || cw { ExprClass::Impure } else { acc.join(c).join(ExprClass::PureMayTrap) };
    let mut expect = own;
    if ncallees >= 1 {
        expect = step(expect, a0, w0, c0);
    }
    if ncallees >= 2 {
        expect = step(expect, a1, w1, c1);
    }
    assert!(r == expect, "post: Impure on an unavailable summary or a callee that assigns captured variables, else own class joined with every callee's transitive class and PureMayTrap");
    assert!(r >= own, "post: never less conservative than the statement's own class");
    assert!(ncallees == 0 || r != ExprClass::PureNoTrap, "post: a statement that calls user code is never removable as trap-free");
    assert!(!(ncallees >= 1 && w0) || r == ExprClass::Impure, "post: a callee that assigns a captured variable makes the statement impure");
    kani::cover!(ncallees == 2 && r == ExprClass::PureMayTrap, "cover: pure statement with two pure callees");
    kani::cover!(ncallees == 0 && r == ExprClass::PureNoTrap, "cover: call-free pure statement");
    kani::cover!(ncallees == 1 && !a0, "cover: unavailable summary");
    kani::cover!(ncallees == 1 && a0 && w0, "cover: callee with captured writes");
    std::mem::forget(facts);
}
