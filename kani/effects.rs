// @inject src/analysis/effects.rs
// Contracts for src/analysis/effects.rs (property C03): the effect lattice and the builtin effect tables that decide which
// statements may ever be pruned.  Pure code: loop-free, full finite domains.
#![allow(non_snake_case, unused_imports, dead_code, clippy::all)]

use super::*;
use crate::builtins::{Builtin, NumberBuiltin, StringBuiltin};

fn any_class() -> ExprClass {
    let k: u8 = kani::any();
    kani::assume(k < 3);
    match k {
        0 => ExprClass::PureNoTrap,
        1 => ExprClass::PureMayTrap,
        _ => ExprClass::Impure,
    }
}

// ExprClass::join is the least upper bound of the chain PureNoTrap < PureMayTrap < Impure
// @harness property=C03 fn=ExprClass::join kind=proof tier=quick cfg=debug domain="loop-free; all 27 triples of classes"
#[kani::proof]
fn expr_class_join__lattice() {
    let (a, b, c) = (any_class(), any_class(), any_class());
    assert!(a.join(b) == b.join(a), "join: commutative");
    assert!(a.join(b).join(c) == a.join(b.join(c)), "join: associative");
    assert!(a.join(a) == a, "join: idempotent");
    assert!(a.join(b) >= a && a.join(b) >= b, "join: upper bound (never less conservative than either operand)");
    assert!(a.join(b) == if a >= b { a } else { b }, "join: LEAST upper bound of the chain");
    assert!(a.join(ExprClass::Impure) == ExprClass::Impure, "join: Impure absorbs");
    assert!(ExprClass::PureNoTrap < ExprClass::PureMayTrap && ExprClass::PureMayTrap < ExprClass::Impure, "order: PureNoTrap < PureMayTrap < Impure");
    kani::cover!(a == ExprClass::PureMayTrap && b == ExprClass::PureNoTrap, "cover: mixed");
}

fn any_array_builtin() -> ArrayBuiltin {
    let k: u8 = kani::any();
    kani::assume(k < 5);
    match k { 0 => ArrayBuiltin::Len, 1 => ArrayBuiltin::Push, 2 => ArrayBuiltin::Pop, 3 => ArrayBuiltin::Reverse, _ => ArrayBuiltin::Join }
}
fn any_command_builtin() -> ProcessCommandBuiltin {
    let k: u8 = kani::any();
    kani::assume(k < 14);
    match k {
        0 => ProcessCommandBuiltin::Run, 1 => ProcessCommandBuiltin::Arg, 2 => ProcessCommandBuiltin::Cwd, 3 => ProcessCommandBuiltin::Env,
        4 => ProcessCommandBuiltin::StdinText, 5 => ProcessCommandBuiltin::StdinInherit, 6 => ProcessCommandBuiltin::StdinNull,
        7 => ProcessCommandBuiltin::StdoutCapture, 8 => ProcessCommandBuiltin::StdoutInherit, 9 => ProcessCommandBuiltin::StdoutNull,
        10 => ProcessCommandBuiltin::StderrCapture, 11 => ProcessCommandBuiltin::StderrInherit, 12 => ProcessCommandBuiltin::StderrNull,
        _ => ProcessCommandBuiltin::TimeoutMs,
    }
}

// Effect tables: a builtin that mutates its receiver, performs I/O or spawns a process must be Impure (never prunable).
// Two independent tables in the code (Builtin::requires_mut_receiver and the *_builtin_class functions) must agree; the I/O set
// {shout, read_line, run} is written here from the documentation.
// @harness property=C03 fn=effects::member_builtin_class+global_builtin_class kind=proof tier=quick cfg=debug domain="loop-free; every array builtin (5), every process-command builtin (14), every global builtin (5)"
#[kani::proof]
fn builtin_effect_tables__mutation_and_io_are_impure() {
    let ab = any_array_builtin();
    if ab.requires_mut_receiver() {
        assert!(member_builtin_class(MemberBuiltin::Array(ab)) == ExprClass::Impure, "table: an array method that mutates its receiver is Impure");
    }
    assert!(matches!(ab, ArrayBuiltin::Push | ArrayBuiltin::Pop | ArrayBuiltin::Reverse) == ab.requires_mut_receiver(), "table: push/pop/reverse are exactly the mutating array methods");
    let cb = any_command_builtin();
    if cb.requires_mut_receiver() || matches!(cb, ProcessCommandBuiltin::Run) {
        assert!(member_builtin_class(MemberBuiltin::ProcessCommand(cb)) == ExprClass::Impure, "table: builder mutation and run() are Impure");
    }
    assert!(global_builtin_class(GlobalBuiltin::Shout) == ExprClass::Impure, "table: shout (output) is Impure");
    assert!(global_builtin_class(GlobalBuiltin::ReadLine) == ExprClass::Impure, "table: read_line (input) is Impure");
    kani::cover!(ab.requires_mut_receiver(), "cover: mutating array method");
    kani::cover!(matches!(cb, ProcessCommandBuiltin::Run), "cover: run");
}
