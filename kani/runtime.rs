// @inject src/runtime.rs
// @needs bump.rs poolset.rs
// Contracts for src/runtime.rs (properties C03/C18 pruning gate, C02, C04, C05, C06).
// release-cfg: the runtime's tables are Vec<_, &Arena>; the string pool is present through its CONTRACTS (kani::stub of
// PoolSet::{alloc_str, dealloc, contains}, whose real bodies are verified under C12).
#![cfg(not(debug_assertions))]
#![allow(non_snake_case, unused_imports, dead_code, clippy::all)]

use super::*;
use crate::analysis::facts::StmtIdBinding;
use crate::analysis::ids::{FunctionId, LocalId, StmtId};
use crate::analysis::opt::OptimizationPlan;
use crate::arena::verif_bump as bk;
use crate::arena::verif_poolset as pk;
use crate::syntax::parser::{Block, Expr, Stmt};
use std::range::Range;
include!("tier.rs");

pub(crate) const SP: Span = Range { start: 0, end: 0 };

/// A runtime built by struct literal (Runtime::new calls PoolSet::new: 1.3 MiB of pool blocks).
pub(crate) fn mk_runtime(arena: &'static Arena, frame: &'static Arena) -> Runtime<'static> {
    Runtime {
        env: Vec::new_in(arena),
        function_scopes: Vec::new_in(arena),
        activations: Vec::new_in(arena),
        output: Vec::new_in(arena),
        errors: Diagnostics::new(arena),
        arena,
        frame,
        pool: pk::layout_poolset_trivial(arena),
        stack_base: 0,
        facts: None,
        optimization_plan: None,
        host_policy: HostPolicy::default(),
    }
}

static STMTS: [Stmt<'static>; 3] = [Stmt::Break { span: SP }, Stmt::Continue { span: SP }, Stmt::Break { span: SP }];

// Runtime::stmt_is_pruned(stmt)
//   ensures  false when no plan is installed (C18: exceeding a budget prunes nothing) or the statement has no id;
//            otherwise exactly "the statement's id is in plan.removable_stmts"
// @harness property=C03,C18 fn=Runtime::stmt_is_pruned kind=bounded tier=quick cfg=release timeout=600 domain="bounded: 3 statements; id table of 0..=3 bindings (sorted by node address, as finalize_pointer_bindings leaves it) with symbolic ids; plan absent or with 0..=3 strictly increasing symbolic ids"
#[kani::proof]
#[kani::unwind(22)]
fn stmt_is_pruned__contract() {
    let arena = bk::mk_arena(1);
    let mut rt = mk_runtime(arena, arena);
    let mut facts = ProgramFacts::new(arena);
    // bindings for a prefix-free subset: statement k is bound iff bound[k]
    let ids: [u32; 3] = kani::any();
    let nb: usize = kani::any();
    kani::assume(nb <= 3);
    let table: &'static mut [StmtIdBinding<'static>; 3] = Box::leak(Box::new([
        StmtIdBinding { stmt: &STMTS[0], id: StmtId(ids[0]) },
        StmtIdBinding { stmt: &STMTS[1], id: StmtId(ids[1]) },
        StmtIdBinding { stmt: &STMTS[2], id: StmtId(ids[2]) },
    ]));
    facts.stmt_ids = unsafe { Vec::from_raw_parts_in(table.as_mut_ptr(), nb, 3, arena) };
    let have_plan: bool = kani::any();
    let rem: [u32; 3] = kani::any();
    let nr: usize = kani::any();
    kani::assume(nr <= 3 && (nr < 2 || rem[0] < rem[1]) && (nr < 3 || rem[1] < rem[2]));
    let remv: &'static mut [StmtId; 3] = Box::leak(Box::new([StmtId(rem[0]), StmtId(rem[1]), StmtId(rem[2])]));
    let plan = OptimizationPlan {
        removable_stmts: unsafe { Vec::from_raw_parts_in(remv.as_mut_ptr(), nr, 3, arena) },
        removable_function_defs: Vec::new_in(arena),
    };
    let with_facts: bool = kani::any();
    rt.facts = if with_facts { Some(NonNull::from(&facts)) } else { None };
    rt.optimization_plan = if have_plan { Some(NonNull::from(&plan)) } else { None };

    let k: usize = kani::any();
    kani::assume(k < 3);
    let got = rt.stmt_is_pruned(&STMTS[k]);

    let bound = with_facts && k < nb;
    let mut member = false;
    let mut j = 0;
    while j < 3 {
        if j < nr && bound && rem[j] == ids[k] {
            member = true;
        }
        j += 1;
    }
    assert!(got == (have_plan && bound && member), "post: pruned <=> a plan is installed and lists this statement's id");
    if !have_plan {
        assert!(!got, "post: without a plan nothing is pruned");
    }
    kani::cover!(got, "cover: pruned");
    kani::cover!(have_plan && bound && !member, "cover: plan present, statement kept");
    kani::cover!(!have_plan && bound, "cover: no plan");
    std::mem::forget(facts);
    std::mem::forget(plan);
    std::mem::forget(rt);
}

// Runtime::function_is_pruned(id)  ensures false without a plan, otherwise exactly membership in plan.removable_function_defs
// @harness property=C03,C18 fn=Runtime::function_is_pruned kind=bounded tier=quick cfg=release timeout=600 domain="bounded: plan absent or with 0..=3 strictly increasing symbolic function ids; every u32 id queried"
#[kani::proof]
#[kani::unwind(22)]
fn function_is_pruned__contract() {
    let arena = bk::mk_arena(1);
    let mut rt = mk_runtime(arena, arena);
    let have_plan: bool = kani::any();
    let rem: [u32; 3] = kani::any();
    let nr: usize = kani::any();
    kani::assume(nr <= 3 && (nr < 2 || rem[0] < rem[1]) && (nr < 3 || rem[1] < rem[2]));
    let remv: &'static mut [FunctionId; 3] = Box::leak(Box::new([FunctionId(rem[0]), FunctionId(rem[1]), FunctionId(rem[2])]));
    let plan = OptimizationPlan {
        removable_stmts: Vec::new_in(arena),
        removable_function_defs: unsafe { Vec::from_raw_parts_in(remv.as_mut_ptr(), nr, 3, arena) },
    };
    rt.optimization_plan = if have_plan { Some(NonNull::from(&plan)) } else { None };
    let q: u32 = kani::any();
    let got = rt.function_is_pruned(FunctionId(q));
    let member = (nr > 0 && rem[0] == q) || (nr > 1 && rem[1] == q) || (nr > 2 && rem[2] == q);
    assert!(got == (have_plan && member), "post: pruned <=> a plan is installed and lists this function id");
    kani::cover!(got, "cover: pruned");
    kani::cover!(!have_plan, "cover: no plan");
    std::mem::forget(plan);
    std::mem::forget(rt);
}

// =====================================================================================================
// C15: host-policy gate.  eval_process_command_call(command, Run, ..)
//   ensures  allow_process == false  => Err(ProcessDenied), and neither ProcessCommand::validate nor the platform runner is reached;
//            allow_process == true   => the runner receives the spec validate() produced from THIS command and the policy's own caps
// =====================================================================================================
static mut VALIDATE_CALLS: usize = 0;
static mut RUN_CALLS: usize = 0;
static mut RUN_ARGS_PTR: usize = 0;
static mut RUN_ARGS_LEN: usize = 0;
static mut RUN_PROGRAM_PTR: usize = 0;
static mut RUN_CAPS_OK: bool = false;
static NOARGS: crate::syntax::parser::ArgList<'static> = crate::syntax::parser::ArgList { args: &[] };

fn validate__must_not_run<'b, 'a>(_c: &'b ProcessCommand<'a>, _caps: &crate::process::ProcessCaps) -> Result<crate::process::ProcessSpec<'b>, ProcessError>
where
    'a: 'a,
{
    unsafe { VALIDATE_CALLS += 1 };
    Err(ProcessError::Denied)
}
fn runner__record<'arena>(spec: &crate::process::ProcessSpec<'_>, caps: &crate::process::ProcessCaps, _arena: &'arena Arena) -> Result<crate::process::ProcessResult<'arena>, ProcessError> {
    unsafe {
        RUN_CALLS += 1;
        RUN_ARGS_PTR = spec.args.as_ptr() as usize;
        RUN_ARGS_LEN = spec.args.len();
        RUN_PROGRAM_PTR = spec.program.as_ptr() as usize;
        RUN_CAPS_OK = caps.max_args == 7 && caps.max_timeout_ms == 1234;
    }
    Err(ProcessError::Unsupported)
}

// error conversion formats io::Error text (core::fmt), irrelevant to the gate: replaced by a constant
fn map_process_error__stub<'a>(_err: ProcessError) -> RuntimeErrorKind
where
    'a: 'a,
{
    RuntimeErrorKind::ProcessUnsupported
}

fn mk_command(arena: &'static Arena, nargs: usize) -> ProcessCommand<'static> {
    let argv: &'static mut [ArenaString<'static>; 2] = Box::leak(Box::new([
        unsafe { ArenaString::from_raw_parts(NonNull::new("x".as_ptr().cast_mut()).unwrap(), 1, arena) },
        unsafe { ArenaString::from_raw_parts(NonNull::new("y z".as_ptr().cast_mut()).unwrap(), 3, arena) },
    ]));
    ProcessCommand {
        program: unsafe { ArenaString::from_raw_parts(NonNull::new("prog".as_ptr().cast_mut()).unwrap(), 4, arena) },
        args: unsafe { Vec::from_raw_parts_in(argv.as_mut_ptr(), nargs, 2, arena) },
        cwd: None,
        env: Vec::new_in(arena),
        stdin: crate::process::StdinPolicy::Inherit,
        stdout: OutputPolicy::Inherit,
        stderr: OutputPolicy::Inherit,
        timeout_ms: Some(5),
    }
}

// @harness property=C15 fn=Runtime::eval_process_command_call kind=proof tier=quick cfg=release timeout=600 domain="single path (policy forbids processes); callees validate / platform runner replaced by must-not-run recorders; command with 0..=2 arguments"
#[kani::proof]
#[kani::unwind(22)]
#[kani::stub(ProcessCommand::validate, validate__must_not_run)]
#[kani::stub(<crate::sys::unix::UnixProcessRunner as crate::sys::ProcessRunner>::run, runner__record)]
#[kani::stub(Runtime::map_process_error, map_process_error__stub)]
fn process_run__denied_by_policy() {
    let arena = bk::mk_arena(1);
    let mut rt = mk_runtime(arena, arena);
    rt.host_policy = HostPolicy { allow_process: false, process: crate::process::ProcessCaps::defaults() };
    let nargs: usize = kani::any();
    kani::assume(nargs <= 2);
    let cmd = mk_command(arena, nargs);
    let r = rt.eval_process_command_call(&cmd, ProcessCommandBuiltin::Run, &NOARGS, SP);
    // (the result is inspected by reference and forgotten: Value's recursive drop glue explodes under unwinding)
    assert!(matches!(&r, Err(e) if matches!(e.kind, RuntimeErrorKind::ProcessDenied)), "post: refused with ProcessDenied");
    std::mem::forget(r);
    assert!(unsafe { VALIDATE_CALLS } == 0 && unsafe { RUN_CALLS } == 0, "post: refused before validation and before anything is spawned");
    kani::cover!(nargs == 2, "cover: command with arguments");
    std::mem::forget(cmd);
    std::mem::forget(rt);
}

// @harness property=C15 fn=Runtime::eval_process_command_call kind=bounded tier=quick cfg=release timeout=900 domain="bounded: one concrete command (program + 2 arguments, one containing a space); policy allows processes; REAL validate, platform runner replaced by a recorder"
#[kani::proof]
#[kani::unwind(22)]
#[kani::stub(<crate::sys::unix::UnixProcessRunner as crate::sys::ProcessRunner>::run, runner__record)]
#[kani::stub(Runtime::map_process_error, map_process_error__stub)]
fn process_run__spec_reaches_runner_unchanged() {
    let arena = bk::mk_arena(1);
    let mut rt = mk_runtime(arena, arena);
    let mut caps = crate::process::ProcessCaps::defaults();
    caps.max_args = 7;
    caps.max_timeout_ms = 1234;
    rt.host_policy = HostPolicy { allow_process: true, process: caps };
    let nargs: usize = 2;
    let cmd = mk_command(arena, nargs);
    let r = rt.eval_process_command_call(&cmd, ProcessCommandBuiltin::Run, &NOARGS, SP);
    assert!(r.is_err(), "stub runner reports Unsupported");
    std::mem::forget(r);
    unsafe {
        assert!(RUN_CALLS == 1, "post: the platform runner is called exactly once");
        assert!(RUN_ARGS_PTR == cmd.args.as_ptr() as usize && RUN_ARGS_LEN == nargs, "post: the runner is given this command's own argument vector (same count, order, bytes)");
        assert!(RUN_PROGRAM_PTR == cmd.program.as_str().as_ptr() as usize, "post: the runner is given this command's program");
        assert!(RUN_CAPS_OK, "post: the runner is given the host policy's own caps");
    }
    kani::cover!(nargs == 2, "cover: two arguments");
    std::mem::forget(cmd);
    std::mem::forget(rt);
}

// =====================================================================================================
// C02 / C05: the store primitives.  The string pool is present through its CONTRACTS (proved for the real PoolSet under C12):
//   alloc_str(s)   -> a fresh owned buffer holding s, allocator == the backing arena, inside a slot contains() owns
//   contains(p)    -> p lies in a slot handed out by alloc_str (live or freed)
//   dealloc(p, n)  -> the slot starting at p (if any) is released AND ITS BYTES ARE HAVOCKED: a freed slot may be handed to
//                     another string at once, which is what makes a use-after-return visible
// =====================================================================================================
const SLOT: usize = 8;
const MAXS: usize = if THOROUGH { 24 } else { 12 };
static mut SLOT_PTR: [usize; MAXS] = [0; MAXS];
static mut SLOT_LIVE: [bool; MAXS] = [false; MAXS];
static mut SLOT_FREED: [u8; MAXS] = [0; MAXS];
static mut NSLOTS: usize = 0;
static mut FOREIGN_DEALLOCS: usize = 0;

fn alloc_str__contract<'a>(set: &PoolSet<'a>, s: &str) -> ArenaString<'a>
where
    'a: 'a,
{
    let buf: &'static mut [u8; SLOT] = Box::leak(Box::new([0xEEu8; SLOT]));
    kani::assume(s.len() <= SLOT);
    let mut i = 0;
    while i < SLOT {
        if i < s.len() {
            buf[i] = s.as_bytes()[i];
        }
        i += 1;
    }
    unsafe {
        kani::assume(NSLOTS < MAXS);
        SLOT_PTR[NSLOTS] = buf.as_ptr() as usize;
        SLOT_LIVE[NSLOTS] = true;
        NSLOTS += 1;
        ArenaString::from_raw_parts(NonNull::new(buf.as_mut_ptr()).unwrap(), s.len(), set.arena())
    }
}
fn slot_of(addr: usize) -> Option<usize> {
    let mut i = 0;
    let mut r = None;
    while i < MAXS {
        unsafe {
            if i < NSLOTS && addr >= SLOT_PTR[i] && addr - SLOT_PTR[i] < SLOT {
                r = Some(i);
            }
        }
        i += 1;
    }
    r
}
fn contains__contract<'a>(_set: &PoolSet<'a>, ptr: *const u8) -> bool
where
    'a: 'a,
{
    slot_of(ptr as usize).is_some()
}
unsafe fn dealloc__contract<'a>(_set: &PoolSet<'a>, ptr: NonNull<u8>, _size: u32)
where
    'a: 'a,
{
    match slot_of(ptr.as_ptr() as usize) {
        Some(i) if unsafe { SLOT_PTR[i] } == ptr.as_ptr() as usize => unsafe {
            SLOT_LIVE[i] = false;
            SLOT_FREED[i] += 1;
            // the slot may be recycled immediately: its old bytes are gone
            let p = SLOT_PTR[i] as *mut u8;
            let mut k = 0;
            while k < SLOT {
                *p.add(k) = 0xDD;
                k += 1;
            }
        },
        _ => unsafe { FOREIGN_DEALLOCS += 1 },
    }
}

/// n symbolic ASCII letters (n concrete: a memcpy of symbolic length into an arena does not terminate in CBMC)
fn any_content(n: usize) -> ([u8; 3], usize) {
    let b: [u8; 3] = kani::any();
    kani::assume(b[0] >= b'a' && b[0] <= b'z' && b[1] >= b'a' && b[1] <= b'z' && b[2] >= b'a' && b[2] <= b'z');
    (b, n)
}
fn same_bytes(s: &str, b: &[u8; 3], n: usize) -> bool {
    s.len() == n && (n < 1 || s.as_bytes()[0] == b[0]) && (n < 2 || s.as_bytes()[1] == b[1]) && (n < 3 || s.as_bytes()[2] == b[2])
}
/// Everything a frame reset may do to the bytes above the mark: poison them.
fn poison_frame_above(frame: &'static Arena, mark: usize) {
    let base = bk::base_of(frame);
    let mut k = 0;
    while k < 24 {
        unsafe { *base.add(mark + k) = 0xDD };
        k += 1;
    }
}

/// A string with the given content in one of the six residences a runtime value can have.
///   0 Borrowed(source text)  1 Borrowed(frame)  2 Borrowed(pool slot of another owner)  3 Owned(frame)  4 Owned(persistent arena)  5 Owned(pool)
fn cow_in(residence: u8, b: &[u8; 3], n: usize, rt: &Runtime<'static>) -> ArenaCow<'static> {
    let tmp: &'static [u8; 3] = Box::leak(Box::new(*b));
    let s: &'static str = unsafe { std::str::from_utf8_unchecked(&tmp[..n]) };
    match residence {
        0 => ArenaCow::Borrowed(s),
        1 => ArenaCow::Borrowed(ArenaString::from_str(rt.frame, s).as_arena_str()),
        2 => ArenaCow::Borrowed(alloc_str__contract(&rt.pool, s).as_arena_str()),
        3 => ArenaCow::Owned(ArenaString::from_str(rt.frame, s)),
        4 => ArenaCow::Owned(ArenaString::from_str(rt.arena, s)),
        _ => ArenaCow::Owned(alloc_str__contract(&rt.pool, s)),
    }
}

// ArenaCow::promote(self, pool, frame)
//   ensures the result has the same content; it does not point into the frame arena; it does not point into a pool slot it does
//           not own (a Borrowed view of somebody else's slot gets its own copy); and it stays intact after the frame is reset
//           and the other owner's slot is recycled
fn cow_promote_case(residence: u8, n: usize) {
    let arena = bk::mk_arena(1);
    let frame = bk::mk_arena(1);
    let rt = mk_runtime(arena, frame);
    let (b, n) = any_content(n);
    let mark = frame.offset();
    let src = cow_in(residence, &b, n, &rt);
    let src_ptr = src.as_ref().as_ptr();
    let out = src.promote(&rt.pool, frame);
    // the caller's frame is reset and the slot the source merely borrowed is recycled by its owner
    poison_frame_above(frame, mark);
    if residence == 2 {
        unsafe { dealloc__contract(&rt.pool, NonNull::new(src_ptr.cast_mut()).unwrap(), n as u32) };
    }
    let p = out.as_ref().as_ptr();
    assert!(!frame.contains_ptr(p), "post: the promoted string does not live in the frame arena");
    assert!(same_bytes(out.as_ref(), &b, n), "post: content preserved and still intact after the frame reset / slot recycling");
    if residence == 2 {
        assert!(p != src_ptr, "post: a borrowed view of another owner's pool slot got its own copy");
    }
    if let ArenaCow::Owned(s) = &out {
        assert!(std::ptr::eq(s.arena(), arena), "post: an owned result reports the persistent arena");
    }
    std::mem::forget(out);
    std::mem::forget(rt);
}

// @harness property=C02 fn=ArenaCow::promote kind=bounded tier=quick cfg=release timeout=1800 domain="bounded: all six residences (source text, frame borrowed/owned, pool borrowed/owned, persistent owned) x lengths {1, 3} ({1, 2, 3} for every residence in the thorough tier) with every ASCII-letter content (symbolic); pool through its contracts"
#[kani::proof]
#[kani::unwind(30)]
#[kani::stub(PoolSet::alloc_str, alloc_str__contract)]
#[kani::stub(PoolSet::contains, contains__contract)]
#[kani::stub(PoolSet::dealloc, dealloc__contract)]
#[kani::stub(<crate::sys::unix::UnixVirtualMemory as crate::sys::VirtualMemory>::commit, bk::vm_commit_ok)]
fn cow_promote__contract() {
    cow_promote_case(0, 3);
    kani::cover!(true, "cover: source-text borrowed done");
    cow_promote_case(1, 3);
    kani::cover!(true, "cover: frame borrowed done");
    cow_promote_case(2, 3);
    kani::cover!(true, "cover: pool borrowed done");
    cow_promote_case(3, 3);
    kani::cover!(true, "cover: frame owned done");
    cow_promote_case(4, 3);
    kani::cover!(true, "cover: persistent owned done");
    cow_promote_case(5, 3);
    kani::cover!(true, "cover: pool owned done");
    cow_promote_case(1, 1);
    cow_promote_case(2, 1);
    cow_promote_case(3, 1);
    if THOROUGH {
        // thorough tier: every residence also with lengths 1 and 2
        cow_promote_case(0, 2);
        cow_promote_case(1, 2);
        cow_promote_case(2, 2);
        cow_promote_case(3, 2);
        cow_promote_case(4, 2);
        cow_promote_case(5, 2);
        cow_promote_case(4, 1);
        cow_promote_case(5, 1);
    }
    kani::cover!(true, "cover: all residences exercised");
}

fn str_ptr(v: &Value<'_>) -> *const u8 {
    match v {
        Value::Str(c) => c.as_ref().as_ptr(),
        _ => std::ptr::null(),
    }
}
fn str_is(v: &Value<'_>, b: &[u8; 3], n: usize) -> bool {
    match v {
        Value::Str(c) => same_bytes(c.as_ref(), b, n),
        _ => false,
    }
}

// Value::clone_into(&self, arena) on strings (the copy handed to expression evaluation on every variable read)
//   ensures same content; an OWNED source is copied into `arena` (the copy shares no byte with the owner's storage, so the owner may be
//           overwritten, go out of scope or be reset while the copy is live); a borrowed source-text string may stay borrowed
fn clone_into_str_case(residence: u8) {
    let arena = bk::mk_arena(1);
    let frame = bk::mk_arena(1);
    let rt = mk_runtime(arena, frame);
    let (b, n) = any_content(3);
    let src = Value::Str(cow_in(residence, &b, n, &rt));
    let sp = str_ptr(&src);
    let copy = src.clone_into(frame);
    let cp = str_ptr(&copy);
    if residence >= 3 {
        assert!(cp != sp, "post: an owned string is copied, not aliased");
        assert!(frame.contains_ptr(cp), "post: the copy lives in the arena it was cloned into");
        // the owner's storage is recycled while the copy is live
        if residence == 5 {
            unsafe { dealloc__contract(&rt.pool, NonNull::new(sp.cast_mut()).unwrap(), n as u32) };
        } else {
            unsafe { std::ptr::write_bytes(sp.cast_mut(), 0xDD, n) };
        }
    }
    assert!(str_is(&copy, &b, n), "post: content preserved, also after the owner's storage is recycled");
    std::mem::forget(copy);
    std::mem::forget(src);
    std::mem::forget(rt);
}

// @harness property=C02,C05 fn=Value::clone_into(Str) kind=bounded tier=quick cfg=release timeout=900 domain="bounded: residences source-text borrowed, frame owned, persistent owned, pool owned; length 3 with every ASCII-letter content"
#[kani::proof]
#[kani::unwind(26)]
#[kani::stub(PoolSet::alloc_str, alloc_str__contract)]
#[kani::stub(PoolSet::contains, contains__contract)]
#[kani::stub(PoolSet::dealloc, dealloc__contract)]
#[kani::stub(<crate::sys::unix::UnixVirtualMemory as crate::sys::VirtualMemory>::commit, bk::vm_commit_ok)]
fn value_clone_into__strings() {
    clone_into_str_case(0);
    clone_into_str_case(3);
    clone_into_str_case(4);
    clone_into_str_case(5);
    kani::cover!(true, "cover: all residences exercised");
}

// Runtime::overwrite_slot(slot, val, has_frame, pool, frame)  and  Value::return_to_pool
//   ensures the slot now holds val's content, stored outside the frame arena; the OLD value's pool slot is returned exactly once,
//           with the size class it was allocated with; nothing else is released; without a frame arena nothing is promoted or released
fn overwrite_case(old_residence: u8, new_residence: u8, has_frame: bool) {
    let arena = bk::mk_arena(1);
    let frame = bk::mk_arena(1);
    let rt = mk_runtime(arena, frame);
    let (b0, n0) = any_content(3);
    let (b1, n1) = any_content(3);
    let mut slot = Value::Str(cow_in(old_residence, &b0, n0, &rt));
    let old_ptr = str_ptr(&slot);
    let old_slot = slot_of(old_ptr as usize);
    let mark = frame.offset();
    let val = Value::Str(cow_in(new_residence, &b1, n1, &rt));
    Runtime::overwrite_slot(&mut slot, val, has_frame, &rt.pool, frame);
    if has_frame {
        poison_frame_above(frame, mark);
        assert!(!frame.contains_ptr(str_ptr(&slot)), "post: the stored value does not live in the frame arena");
    }
    if has_frame || new_residence != 3 {
        assert!(str_is(&slot, &b1, n1), "post: the slot holds the new content (intact after the frame reset)");
    }
    unsafe {
        if let Some(i) = old_slot {
            if old_residence == 5 && has_frame {
                assert!(SLOT_FREED[i] == 1 && !SLOT_LIVE[i], "post: the old value's pool slot is returned exactly once");
            } else {
                assert!(SLOT_FREED[i] == 0, "post: a slot the old value did not own is not released");
            }
        }
        assert!(FOREIGN_DEALLOCS == 0, "post: nothing that is not a pool slot start is handed to dealloc");
    }
    std::mem::forget(slot);
    std::mem::forget(rt);
}

// @harness property=C02 fn=Runtime::overwrite_slot+Value::return_to_pool kind=bounded tier=quick cfg=release timeout=900 domain="bounded: old value in {pool owned, persistent owned, source-text borrowed}, new value in {frame owned, pool owned, source-text borrowed}, with and without a frame arena; contents of 3 symbolic ASCII letters"
#[kani::proof]
#[kani::unwind(26)]
#[kani::stub(PoolSet::alloc_str, alloc_str__contract)]
#[kani::stub(PoolSet::contains, contains__contract)]
#[kani::stub(PoolSet::dealloc, dealloc__contract)]
#[kani::stub(<crate::sys::unix::UnixVirtualMemory as crate::sys::VirtualMemory>::commit, bk::vm_commit_ok)]
fn overwrite_slot__contract() {
    overwrite_case(5, 3, true);
    overwrite_case(4, 3, true);
    overwrite_case(0, 5, true);
    overwrite_case(5, 0, true);
    overwrite_case(5, 3, false);
    kani::cover!(true, "cover: all cases exercised");
}

// =====================================================================================================
// C04: id-directed lookup at run time.
//   lookup_local_env(id) / lookup_local_mut(id): the slot with that id in the INNERMOST scope holding one, and the LATEST such slot
//   within that scope; None when no scope holds the id.          lookup_func_by_id likewise over function scopes.
// =====================================================================================================
fn leak_vec<T: 'static>(items: Vec<T>, arena: &'static Arena) -> Vec<T, &'static Arena> {
    let n = items.len();
    let b: &'static mut [T] = Box::leak(items.into_boxed_slice());
    unsafe { Vec::from_raw_parts_in(b.as_mut_ptr(), n, n, arena) }
}
fn any_slot_id() -> Option<LocalId> {
    let k: u8 = kani::any();
    kani::assume(k < 4);
    if k == 3 { None } else { Some(LocalId(k as u32)) }
}

// @harness property=C04 fn=Runtime::lookup_local_env+lookup_local_mut kind=bounded tier=quick cfg=release timeout=600 domain="bounded: 3 scopes x 2 slots; every assignment of ids {0,1,2,none} to the 6 slots; every queried id"
#[kani::proof]
#[kani::unwind(22)]
fn lookup_local__innermost_latest() {
    let arena = bk::mk_arena(1);
    let mut rt = mk_runtime(arena, arena);
    let ids: [Option<LocalId>; 6] = [any_slot_id(), any_slot_id(), any_slot_id(), any_slot_id(), any_slot_id(), any_slot_id()];
    let slot = |k: usize| LocalSlot { id: ids[k], name: "v", value: Value::Number(k as f64) };
    rt.env = leak_vec(vec![
        leak_vec(vec![slot(0), slot(1)], arena),
        leak_vec(vec![slot(2), slot(3)], arena),
        leak_vec(vec![slot(4), slot(5)], arena),
    ], arena);
    let q: u32 = kani::any();
    kani::assume(q < 3);
    // specification: scan from the innermost scope, latest slot first
    let mut expect: Option<usize> = None;
    let mut k = 0;
    while k < 6 {
        if ids[k] == Some(LocalId(q)) {
            expect = Some(k); // later k = more inner scope / later slot
        }
        k += 1;
    }
    let got = rt.lookup_local_env(LocalId(q)).map(|v| match v { Value::Number(n) => *n as usize, _ => 99 });
    assert!(got == expect, "post: lookup_local_env finds the innermost scope's latest slot with that id (None if absent)");
    let got_mut = rt.lookup_local_mut(LocalId(q)).map(|v| match v { Value::Number(n) => *n as usize, _ => 99 });
    assert!(got_mut == expect, "post: lookup_local_mut resolves to the same slot as lookup_local_env");
    kani::cover!(expect == Some(1) , "cover: found only in the outermost scope");
    kani::cover!(expect.is_none(), "cover: absent id");
    kani::cover!(ids[5] == Some(LocalId(q)) && ids[4] == Some(LocalId(q)), "cover: re-declared in the innermost scope");
    std::mem::forget(rt);
}
