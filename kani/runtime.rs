// @inject src/runtime.rs
// @needs bump.rs poolset.rs
// Contracts for src/runtime.rs (properties C03/C18 pruning gate, C02, C04, C05, C06).
// release-cfg: the runtime's tables are Vec<_, &Arena>; the string pool is present through its CONTRACTS (kani::stub of
// PoolSet::{alloc_str, dealloc, contains}, whose real bodies are verified under C12).
#![cfg(not(debug_assertions))]
#![allow(non_snake_case, unused_imports, dead_code, clippy::all)]

use super::*;
use crate::analysis::facts::StmtIdBinding;
use crate::analysis::ids::{FunctionId, LocalId, StmtId};
use crate::analysis::opt::OptimizationPlan;
use crate::arena::verif_bump as bk;
use crate::arena::verif_poolset as pk;
use crate::syntax::parser::{Block, Expr, Stmt};
use std::range::Range;
include!("tier.rs");

pub(crate) const SP: Span = Range { start: 0, end: 0 };

/// A runtime built by struct literal (Runtime::new calls PoolSet::new: 1.3 MiB of pool blocks).
pub(crate) fn mk_runtime(arena: &'static Arena, frame: &'static Arena) -> Runtime<'static> {
    Runtime {
        env: Vec::new_in(arena),
        function_scopes: Vec::new_in(arena),
        output: Vec::new_in(arena),
        errors: Diagnostics::new(arena),
        arena,
        frame,
        pool: pk::layout_poolset_trivial(arena),
        stack_base: 0,
        facts: None,
        optimization_plan: None,
        host_policy: HostPolicy::default(),
    }
}

static STMTS: [Stmt<'static>; 3] = [Stmt::Break { span: SP }, Stmt::Continue { span: SP }, Stmt::Break { span: SP }];

// Runtime::stmt_is_pruned(stmt)
//   ensures  false when no plan is installed (C18: exceeding a budget prunes nothing) or the statement has no id;
//            otherwise exactly "the statement's id is in plan.removable_stmts"
// @harness property=C03,C18 fn=Runtime::stmt_is_pruned kind=bounded tier=quick cfg=release timeout=600 domain="bounded: 3 statements; id table of 0..=3 bindings (sorted by node address, as finalize_pointer_bindings leaves it) with symbolic ids; plan absent or with 0..=3 strictly increasing symbolic ids"
#[kani::proof]
#[kani::unwind(22)]
fn stmt_is_pruned__contract() {
    let arena = bk::mk_arena(1);
    let mut rt = mk_runtime(arena, arena);
    let mut facts = ProgramFacts::new(arena);
    // bindings for a prefix-free subset: statement k is bound iff bound[k]
    let ids: [u32; 3] = kani::any();
    let nb: usize = kani::any();
    kani::assume(nb <= 3);
    let table: &'static mut [StmtIdBinding<'static>; 3] = Box::leak(Box::new([
        StmtIdBinding { stmt: &STMTS[0], id: StmtId(ids[0]) },
        StmtIdBinding { stmt: &STMTS[1], id: StmtId(ids[1]) },
        StmtIdBinding { stmt: &STMTS[2], id: StmtId(ids[2]) },
    ]));
    facts.stmt_ids = unsafe { Vec::from_raw_parts_in(table.as_mut_ptr(), nb, 3, arena) };
    let have_plan: bool = kani::any();
    let rem: [u32; 3] = kani::any();
    let nr: usize = kani::any();
    kani::assume(nr <= 3 && (nr < 2 || rem[0] < rem[1]) && (nr < 3 || rem[1] < rem[2]));
    let remv: &'static mut [StmtId; 3] = Box::leak(Box::new([StmtId(rem[0]), StmtId(rem[1]), StmtId(rem[2])]));
    let plan = OptimizationPlan {
        removable_stmts: unsafe { Vec::from_raw_parts_in(remv.as_mut_ptr(), nr, 3, arena) },
        removable_function_defs: Vec::new_in(arena),
    };
    let with_facts: bool = kani::any();
    rt.facts = if with_facts { Some(NonNull::from(&facts)) } else { None };
    rt.optimization_plan = if have_plan { Some(NonNull::from(&plan)) } else { None };

    let k: usize = kani::any();
    kani::assume(k < 3);
    let got = rt.stmt_is_pruned(&STMTS[k]);

    let bound = with_facts && k < nb;
    let mut member = false;
    let mut j = 0;
    while j < 3 {
        if j < nr && bound && rem[j] == ids[k] {
            member = true;
        }
        j += 1;
    }
    assert!(got == (have_plan && bound && member), "post: pruned <=> a plan is installed and lists this statement's id");
    if !have_plan {
        assert!(!got, "post: without a plan nothing is pruned");
    }
    kani::cover!(got, "cover: pruned");
    kani::cover!(have_plan && bound && !member, "cover: plan present, statement kept");
    kani::cover!(!have_plan && bound, "cover: no plan");
    std::mem::forget(facts);
    std::mem::forget(plan);
    std::mem::forget(rt);
}

// Runtime::function_is_pruned(id)  ensures false without a plan, otherwise exactly membership in plan.removable_function_defs
// @harness property=C03,C18 fn=Runtime::function_is_pruned kind=bounded tier=quick cfg=release timeout=600 domain="bounded: plan absent or with 0..=3 strictly increasing symbolic function ids; every u32 id queried"
#[kani::proof]
#[kani::unwind(22)]
fn function_is_pruned__contract() {
    let arena = bk::mk_arena(1);
    let mut rt = mk_runtime(arena, arena);
    let have_plan: bool = kani::any();
    let rem: [u32; 3] = kani::any();
    let nr: usize = kani::any();
    kani::assume(nr <= 3 && (nr < 2 || rem[0] < rem[1]) && (nr < 3 || rem[1] < rem[2]));
    let remv: &'static mut [FunctionId; 3] = Box::leak(Box::new([FunctionId(rem[0]), FunctionId(rem[1]), FunctionId(rem[2])]));
    let plan = OptimizationPlan {
        removable_stmts: Vec::new_in(arena),
        removable_function_defs: unsafe { Vec::from_raw_parts_in(remv.as_mut_ptr(), nr, 3, arena) },
    };
    rt.optimization_plan = if have_plan { Some(NonNull::from(&plan)) } else { None };
    let q: u32 = kani::any();
    let got = rt.function_is_pruned(FunctionId(q));
    let member = (nr > 0 && rem[0] == q) || (nr > 1 && rem[1] == q) || (nr > 2 && rem[2] == q);
    assert!(got == (have_plan && member), "post: pruned <=> a plan is installed and lists this function id");
    kani::cover!(got, "cover: pruned");
    kani::cover!(!have_plan, "cover: no plan");
    std::mem::forget(plan);
    std::mem::forget(rt);
}
