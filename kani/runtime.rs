// @inject src/runtime.rs
// @needs bump.rs poolset.rs
// Contracts for src/runtime.rs (properties C03/C18 pruning gate, C02, C04, C05, C06).
// release-cfg: the runtime's tables are Vec<_, &Arena>; the string pool is present through its CONTRACTS (kani::stub of
// PoolSet::{alloc_str, dealloc, contains}, whose real bodies are verified under C12).
#![cfg(not(debug_assertions))]
#![allow(non_snake_case, unused_imports, dead_code, clippy::all)]

use super::*;
use crate::analysis::facts::StmtIdBinding;
use crate::analysis::ids::{FunctionId, LocalId, StmtId};
use crate::analysis::opt::OptimizationPlan;
use crate::arena::verif_bump as bk;
use crate::arena::verif_poolset as pk;
use crate::syntax::parser::{Block, Expr, Stmt};
use std::range::Range;
include!("tier.rs");

pub(crate) const SP: Span = Range { start: 0, end: 0 };

/// A runtime built by struct literal (Runtime::new calls PoolSet::new: 1.3 MiB of pool blocks).
pub(crate) fn mk_runtime(arena: &'static Arena, frame: &'static Arena) -> Runtime<'static> {
    Runtime {
        env: Vec::new_in(arena),
        function_scopes: Vec::new_in(arena),
        output: Vec::new_in(arena),
        errors: Diagnostics::new(arena),
        arena,
        frame,
        pool: pk::layout_poolset_trivial(arena),
        stack_base: 0,
        facts: None,
        optimization_plan: None,
        host_policy: HostPolicy::default(),
    }
}

static STMTS: [Stmt<'static>; 3] = [Stmt::Break { span: SP }, Stmt::Continue { span: SP }, Stmt::Break { span: SP }];

// Runtime::stmt_is_pruned(stmt)
//   ensures  false when no plan is installed (C18: exceeding a budget prunes nothing) or the statement has no id;
//            otherwise exactly "the statement's id is in plan.removable_stmts"
// @harness property=C03,C18 fn=Runtime::stmt_is_pruned kind=bounded tier=quick cfg=release timeout=600 domain="bounded: 3 statements; id table of 0..=3 bindings (sorted by node address, as finalize_pointer_bindings leaves it) with symbolic ids; plan absent or with 0..=3 strictly increasing symbolic ids"
#[kani::proof]
#[kani::unwind(22)]
fn stmt_is_pruned__contract() {
    let arena = bk::mk_arena(1);
    let mut rt = mk_runtime(arena, arena);
    let mut facts = ProgramFacts::new(arena);
    // bindings for a prefix-free subset: statement k is bound iff bound[k]
    let ids: [u32; 3] = kani::any();
    let nb: usize = kani::any();
    kani::assume(nb <= 3);
    let table: &'static mut [StmtIdBinding<'static>; 3] = Box::leak(Box::new([
        StmtIdBinding { stmt: &STMTS[0], id: StmtId(ids[0]) },
        StmtIdBinding { stmt: &STMTS[1], id: StmtId(ids[1]) },
        StmtIdBinding { stmt: &STMTS[2], id: StmtId(ids[2]) },
    ]));
    facts.stmt_ids = unsafe { Vec::from_raw_parts_in(table.as_mut_ptr(), nb, 3, arena) };
    let have_plan: bool = kani::any();
    let rem: [u32; 3] = kani::any();
    let nr: usize = kani::any();
    kani::assume(nr <= 3 && (nr < 2 || rem[0] < rem[1]) && (nr < 3 || rem[1] < rem[2]));
    let remv: &'static mut [StmtId; 3] = Box::leak(Box::new([StmtId(rem[0]), StmtId(rem[1]), StmtId(rem[2])]));
    let plan = OptimizationPlan {
        removable_stmts: unsafe { Vec::from_raw_parts_in(remv.as_mut_ptr(), nr, 3, arena) },
        removable_function_defs: Vec::new_in(arena),
    };
    let with_facts: bool = kani::any();
    rt.facts = if with_facts { Some(NonNull::from(&facts)) } else { None };
    rt.optimization_plan = if have_plan { Some(NonNull::from(&plan)) } else { None };

    let k: usize = kani::any();
    kani::assume(k < 3);
    let got = rt.stmt_is_pruned(&STMTS[k]);

    let bound = with_facts && k < nb;
    let mut member = false;
    let mut j = 0;
    while j < 3 {
        if j < nr && bound && rem[j] == ids[k] {
            member = true;
        }
        j += 1;
    }
    assert!(got == (have_plan && bound && member), "post: pruned <=> a plan is installed and lists this statement's id");
    if !have_plan {
        assert!(!got, "post: without a plan nothing is pruned");
    }
    kani::cover!(got, "cover: pruned");
    kani::cover!(have_plan && bound && !member, "cover: plan present, statement kept");
    kani::cover!(!have_plan && bound, "cover: no plan");
    std::mem::forget(facts);
    std::mem::forget(plan);
    std::mem::forget(rt);
}

// Runtime::function_is_pruned(id)  ensures false without a plan, otherwise exactly membership in plan.removable_function_defs
// @harness property=C03,C18 fn=Runtime::function_is_pruned kind=bounded tier=quick cfg=release timeout=600 domain="bounded: plan absent or with 0..=3 strictly increasing symbolic function ids; every u32 id queried"
#[kani::proof]
#[kani::unwind(22)]
fn function_is_pruned__contract() {
    let arena = bk::mk_arena(1);
    let mut rt = mk_runtime(arena, arena);
    let have_plan: bool = kani::any();
    let rem: [u32; 3] = kani::any();
    let nr: usize = kani::any();
    kani::assume(nr <= 3 && (nr < 2 || rem[0] < rem[1]) && (nr < 3 || rem[1] < rem[2]));
    let remv: &'static mut [FunctionId; 3] = Box::leak(Box::new([FunctionId(rem[0]), FunctionId(rem[1]), FunctionId(rem[2])]));
    let plan = OptimizationPlan {
        removable_stmts: Vec::new_in(arena),
        removable_function_defs: unsafe { Vec::from_raw_parts_in(remv.as_mut_ptr(), nr, 3, arena) },
    };
    rt.optimization_plan = if have_plan { Some(NonNull::from(&plan)) } else { None };
    let q: u32 = kani::any();
    let got = rt.function_is_pruned(FunctionId(q));
    let member = (nr > 0 && rem[0] == q) || (nr > 1 && rem[1] == q) || (nr > 2 && rem[2] == q);
    assert!(got == (have_plan && member), "post: pruned <=> a plan is installed and lists this function id");
    kani::cover!(got, "cover: pruned");
    kani::cover!(!have_plan, "cover: no plan");
    std::mem::forget(plan);
    std::mem::forget(rt);
}

// =====================================================================================================
// C15: host-policy gate.  eval_process_command_call(command, Run, ..)
//   ensures  allow_process == false  => Err(ProcessDenied), and neither ProcessCommand::validate nor the platform runner is reached;
//            allow_process == true   => the runner receives the spec validate() produced from THIS command and the policy's own caps
// =====================================================================================================
static mut VALIDATE_CALLS: usize = 0;
static mut RUN_CALLS: usize = 0;
static mut RUN_ARGS_PTR: usize = 0;
static mut RUN_ARGS_LEN: usize = 0;
static mut RUN_PROGRAM_PTR: usize = 0;
static mut RUN_CAPS_OK: bool = false;
static NOARGS: crate::syntax::parser::ArgList<'static> = crate::syntax::parser::ArgList { args: &[] };

fn validate__must_not_run<'b, 'a>(_c: &'b ProcessCommand<'a>, _caps: &crate::process::ProcessCaps) -> Result<crate::process::ProcessSpec<'b>, ProcessError>
where
    'a: 'a,
{
    unsafe { VALIDATE_CALLS += 1 };
    Err(ProcessError::Denied)
}
fn runner__record<'arena>(spec: &crate::process::ProcessSpec<'_>, caps: &crate::process::ProcessCaps, _arena: &'arena Arena) -> Result<crate::process::ProcessResult<'arena>, ProcessError> {
    unsafe {
        RUN_CALLS += 1;
        RUN_ARGS_PTR = spec.args.as_ptr() as usize;
        RUN_ARGS_LEN = spec.args.len();
        RUN_PROGRAM_PTR = spec.program.as_ptr() as usize;
        RUN_CAPS_OK = caps.max_args == 7 && caps.max_timeout_ms == 1234;
    }
    Err(ProcessError::Unsupported)
}

// error conversion formats io::Error text (core::fmt), irrelevant to the gate: replaced by a constant
fn map_process_error__stub<'a>(_err: ProcessError) -> RuntimeErrorKind
where
    'a: 'a,
{
    RuntimeErrorKind::ProcessUnsupported
}

fn mk_command(arena: &'static Arena, nargs: usize) -> ProcessCommand<'static> {
    let argv: &'static mut [ArenaString<'static>; 2] = Box::leak(Box::new([
        unsafe { ArenaString::from_raw_parts(NonNull::new("x".as_ptr().cast_mut()).unwrap(), 1, arena) },
        unsafe { ArenaString::from_raw_parts(NonNull::new("y z".as_ptr().cast_mut()).unwrap(), 3, arena) },
    ]));
    ProcessCommand {
        program: unsafe { ArenaString::from_raw_parts(NonNull::new("prog".as_ptr().cast_mut()).unwrap(), 4, arena) },
        args: unsafe { Vec::from_raw_parts_in(argv.as_mut_ptr(), nargs, 2, arena) },
        cwd: None,
        env: Vec::new_in(arena),
        stdin: crate::process::StdinPolicy::Inherit,
        stdout: OutputPolicy::Inherit,
        stderr: OutputPolicy::Inherit,
        timeout_ms: Some(5),
    }
}

// @harness property=C15 fn=Runtime::eval_process_command_call kind=proof tier=quick cfg=release timeout=600 domain="single path (policy forbids processes); callees validate / platform runner replaced by must-not-run recorders; command with 0..=2 arguments"
#[kani::proof]
#[kani::unwind(22)]
#[kani::stub(ProcessCommand::validate, validate__must_not_run)]
#[kani::stub(<crate::sys::unix::UnixProcessRunner as crate::sys::ProcessRunner>::run, runner__record)]
#[kani::stub(Runtime::map_process_error, map_process_error__stub)]
fn process_run__denied_by_policy() {
    let arena = bk::mk_arena(1);
    let mut rt = mk_runtime(arena, arena);
    rt.host_policy = HostPolicy { allow_process: false, process: crate::process::ProcessCaps::defaults() };
    let nargs: usize = kani::any();
    kani::assume(nargs <= 2);
    let cmd = mk_command(arena, nargs);
    let r = rt.eval_process_command_call(&cmd, ProcessCommandBuiltin::Run, &NOARGS, SP);
    // (the result is inspected by reference and forgotten: Value's recursive drop glue explodes under unwinding)
    assert!(matches!(&r, Err(e) if matches!(e.kind, RuntimeErrorKind::ProcessDenied)), "post: refused with ProcessDenied");
    std::mem::forget(r);
    assert!(unsafe { VALIDATE_CALLS } == 0 && unsafe { RUN_CALLS } == 0, "post: refused before validation and before anything is spawned");
    kani::cover!(nargs == 2, "cover: command with arguments");
    std::mem::forget(cmd);
    std::mem::forget(rt);
}

// @harness property=C15 fn=Runtime::eval_process_command_call kind=bounded tier=quick cfg=release timeout=900 domain="bounded: one concrete command (program + 2 arguments, one containing a space); policy allows processes; REAL validate, platform runner replaced by a recorder"
#[kani::proof]
#[kani::unwind(22)]
#[kani::stub(<crate::sys::unix::UnixProcessRunner as crate::sys::ProcessRunner>::run, runner__record)]
#[kani::stub(Runtime::map_process_error, map_process_error__stub)]
fn process_run__spec_reaches_runner_unchanged() {
    let arena = bk::mk_arena(1);
    let mut rt = mk_runtime(arena, arena);
    let mut caps = crate::process::ProcessCaps::defaults();
    caps.max_args = 7;
    caps.max_timeout_ms = 1234;
    rt.host_policy = HostPolicy { allow_process: true, process: caps };
    let nargs: usize = 2;
    let cmd = mk_command(arena, nargs);
    let r = rt.eval_process_command_call(&cmd, ProcessCommandBuiltin::Run, &NOARGS, SP);
    assert!(r.is_err(), "stub runner reports Unsupported");
    std::mem::forget(r);
    unsafe {
        assert!(RUN_CALLS == 1, "post: the platform runner is called exactly once");
        assert!(RUN_ARGS_PTR == cmd.args.as_ptr() as usize && RUN_ARGS_LEN == nargs, "post: the runner is given this command's own argument vector (same count, order, bytes)");
        assert!(RUN_PROGRAM_PTR == cmd.program.as_str().as_ptr() as usize, "post: the runner is given this command's program");
        assert!(RUN_CAPS_OK, "post: the runner is given the host policy's own caps");
    }
    kani::cover!(nargs == 2, "cover: two arguments");
    std::mem::forget(cmd);
    std::mem::forget(rt);
}
