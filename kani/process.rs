// @inject src/process.rs
// @needs bump.rs
// Contracts for src/process.rs (property C15): what a child process is given is exactly what the script configured, and
// anything outside the configured limits is refused before a spawn.   release-cfg (ArenaString needs &Arena).
#![cfg(not(debug_assertions))]
#![allow(non_snake_case, unused_imports, dead_code, clippy::all)]

use super::*;
use crate::arena::verif_bump as bk;
include!("tier.rs");

/// A string of 0..=N bytes over the alphabet {a, =, NUL}: every class validate_named_text distinguishes.
fn any_text<const N: usize>() -> (&'static str, usize, bool, bool) {
    let buf: &'static mut [u8; N] = Box::leak(Box::new([b'a'; N]));
    let n: usize = kani::any();
    kani::assume(n <= N);
    let (mut has_nul, mut has_eq) = (false, false);
    let mut i = 0;
    while i < N {
        let k: u8 = kani::any();
        kani::assume(k < 3);
        buf[i] = match k {
            0 => b'a',
            1 => b'=',
            _ => 0,
        };
        if i < n {
            has_nul |= k == 2;
            has_eq |= k == 1;
        }
        i += 1;
    }
    (unsafe { std::str::from_utf8_unchecked(&buf[..n]) }, n, has_nul, has_eq)
}

/// The same text as an ArenaString WITHOUT going through the allocator (the builder only stores and reads them).
fn as_arena_string(s: &'static str, arena: &'static Arena) -> ArenaString<'static> {
    unsafe { ArenaString::from_raw_parts(NonNull::new(s.as_ptr().cast_mut()).unwrap_or(NonNull::dangling()), s.len(), arena) }
}

// validate_named_text(name, value, max_bytes, allow_empty, forbid_equals)
//   ensures Ok(l) <=> (allow_empty or value non-empty) and no NUL byte and (not forbid_equals or no '=') and len <= max_bytes;  l == len
// @harness property=C15 fn=process::validate_named_text kind=proof tier=quick cfg=release timeout=600 domain="every u32 cap and both flags; every text of 0..=3 bytes over {a, =, NUL} (all byte classes the function distinguishes; the length comparison is uniform in the length)"
#[kani::proof]
#[kani::unwind(12)]
fn validate_named_text__contract() {
    let (s, n, has_nul, has_eq) = any_text::<3>();
    let max: u32 = kani::any();
    let allow_empty: bool = kani::any();
    let forbid_equals: bool = kani::any();
    let r = validate_named_text("x", s, max, allow_empty, forbid_equals);
    let ok = (allow_empty || n > 0) && !has_nul && (!forbid_equals || !has_eq) && n as u64 <= max as u64;
    match r {
        Ok(l) => {
            assert!(ok, "post ok: accepted only inside the rules (non-empty unless allowed, no NUL, no '=' where forbidden, within the cap)");
            assert!(l as usize == n, "post ok: returns the byte length");
        }
        Err(ProcessError::SpecInvalid(_)) => assert!(!ok, "post err: refused only outside the rules"),
        Err(_) => assert!(false, "post err: the error kind is SpecInvalid"),
    }
    kani::cover!(ok && n == 3 && max == 3, "cover: exactly at the cap");
    kani::cover!(!ok && n as u64 == max as u64 + 1 && !has_nul && !has_eq, "cover: one byte above the cap");
    kani::cover!(has_nul && n > 0, "cover: NUL byte");
    kani::cover!(has_eq && forbid_equals && !has_nul, "cover: '=' in a key");
    kani::cover!(n == 0 && !allow_empty, "cover: empty not allowed");
}

// validate_count(len, max)   ensures Ok <=> len <= max   (for every usize length, including those above u32::MAX)
// @harness property=C15 fn=process::validate_count kind=proof tier=quick cfg=release domain="loop-free; every usize len, every u32 max"
#[kani::proof]
fn validate_count__contract() {
    let len: usize = kani::any();
    let max: u32 = kani::any();
    let r = validate_count(len, max, "n");
    assert!(r.is_ok() == (len as u64 <= max as u64), "post: Ok <=> len <= max");
    kani::cover!(len as u64 == max as u64 + 1, "cover: just above");
    kani::cover!(len > u32::MAX as usize, "cover: length above u32::MAX");
}

fn any_caps() -> ProcessCaps {
    ProcessCaps {
        max_program_bytes: kani::any(),
        max_cwd_bytes: kani::any(),
        max_args: kani::any(),
        max_arg_bytes: kani::any(),
        max_total_arg_bytes: kani::any(),
        max_env_pairs: kani::any(),
        max_env_key_bytes: kani::any(),
        max_env_value_bytes: kani::any(),
        max_total_env_bytes: kani::any(),
        max_stdin_bytes: kani::any(),
        max_capture_bytes_per_stream: kani::any(),
        default_timeout_ms: kani::any(),
        max_timeout_ms: kani::any(),
        wait_poll_ms: kani::any(),
    }
}

// ProcessCommand::validate(caps)
//   ensures Ok(spec) <=> every configured limit holds (program, arg count, env count, each arg, total arg bytes, cwd, each key,
//           each value, total env bytes, stdin text, 0 < timeout <= max) -- written here from the property statement --
//           and spec.program/args/cwd/env/stdin/stdout/stderr ARE the builder's own values, same order, same bytes;
//           spec.timeout_ms == configured timeout or the default
// One harness over all nine texts and all fourteen caps at once does not terminate in CBMC (> 15 min), so the conjunction is
// checked one group of clauses at a time, the other groups being satisfied: arguments / environment / program+cwd+stdin+timeout.
struct Parts {
    prog: (&'static str, usize, bool),
    args: [(&'static str, usize, bool); 2],
    nargs: usize,
    env: [((&'static str, usize, bool, bool), (&'static str, usize, bool)); 2],
    nenv: usize,
    cwd: Option<(&'static str, usize, bool)>,
    stdin_text: Option<(&'static str, usize, bool)>,
    stdin_null: bool,
    timeout: Option<u32>,
}

const A: (&str, usize, bool) = ("a", 1, false);

fn check_validate(p: Parts, caps: ProcessCaps) -> bool {
    let arena = bk::mk_arena(1);
    let argv: &'static mut [ArenaString<'static>; 2] = Box::leak(Box::new([as_arena_string(p.args[0].0, arena), as_arena_string(p.args[1].0, arena)]));
    let envv: &'static mut [EnvPair<'static>; 2] = Box::leak(Box::new([
        EnvPair { key: as_arena_string(p.env[0].0 .0, arena), value: as_arena_string(p.env[0].1 .0, arena) },
        EnvPair { key: as_arena_string(p.env[1].0 .0, arena), value: as_arena_string(p.env[1].1 .0, arena) },
    ]));
    let cmd = ProcessCommand {
        program: as_arena_string(p.prog.0, arena),
        args: unsafe { Vec::from_raw_parts_in(argv.as_mut_ptr(), p.nargs, 2, arena) },
        cwd: p.cwd.map(|c| as_arena_string(c.0, arena)),
        env: unsafe { Vec::from_raw_parts_in(envv.as_mut_ptr(), p.nenv, 2, arena) },
        stdin: match p.stdin_text {
            Some(t) => StdinPolicy::Text(as_arena_string(t.0, arena)),
            None if p.stdin_null => StdinPolicy::Null,
            None => StdinPolicy::Inherit,
        },
        stdout: OutputPolicy::Capture,
        stderr: OutputPolicy::Null,
        timeout_ms: p.timeout,
    };

    let r = cmd.validate(&caps);

    // ---- the property statement, clause by clause (u64 arithmetic: no overflow in the specification) ----
    let le = |n: usize, cap: u32| n as u64 <= cap as u64;
    let arg_ok = |used: bool, a: (&str, usize, bool)| !used || (!a.2 && le(a.1, caps.max_arg_bytes));
    let key_ok = |used: bool, k: (&str, usize, bool, bool)| !used || (k.1 > 0 && !k.2 && !k.3 && le(k.1, caps.max_env_key_bytes));
    let val_ok = |used: bool, v: (&str, usize, bool)| !used || (!v.2 && le(v.1, caps.max_env_value_bytes));
    let total_args = (if p.nargs > 0 { p.args[0].1 } else { 0 } + if p.nargs > 1 { p.args[1].1 } else { 0 }) as u64;
    let total_env = (if p.nenv > 0 { p.env[0].0 .1 + p.env[0].1 .1 } else { 0 } + if p.nenv > 1 { p.env[1].0 .1 + p.env[1].1 .1 } else { 0 }) as u64;
    let t = match p.timeout {
        Some(t) => t,
        None => caps.default_timeout_ms,
    };
    let ok = p.prog.1 > 0 && !p.prog.2 && le(p.prog.1, caps.max_program_bytes)
        && le(p.nargs, caps.max_args)
        && le(p.nenv, caps.max_env_pairs)
        && arg_ok(p.nargs > 0, p.args[0]) && arg_ok(p.nargs > 1, p.args[1])
        && total_args <= caps.max_total_arg_bytes as u64
        && match p.cwd { Some(c) => c.1 > 0 && !c.2 && le(c.1, caps.max_cwd_bytes), None => true }
        && key_ok(p.nenv > 0, p.env[0].0) && val_ok(p.nenv > 0, p.env[0].1)
        && key_ok(p.nenv > 1, p.env[1].0) && val_ok(p.nenv > 1, p.env[1].1)
        && total_env <= caps.max_total_env_bytes as u64
        && match p.stdin_text { Some(s) => !s.2 && le(s.1, caps.max_stdin_bytes), None => true }
        && t > 0 && t <= caps.max_timeout_ms;
    match r {
        Ok(spec) => {
            assert!(ok, "post ok: accepted only when every configured limit holds");
            assert!(std::ptr::eq(spec.program.as_ptr(), cmd.program.as_str().as_ptr()) && spec.program.len() == p.prog.1, "post ok: program is the builder's own string");
            assert!(std::ptr::eq(spec.args.as_ptr(), cmd.args.as_ptr()) && spec.args.len() == p.nargs, "post ok: args are the builder's own vector: same count, same order, same bytes");
            assert!(std::ptr::eq(spec.env.as_ptr(), cmd.env.as_ptr()) && spec.env.len() == p.nenv, "post ok: env is the builder's own vector");
            assert!(spec.cwd.is_some() == p.cwd.is_some(), "post ok: cwd present iff configured");
            if let (Some(got), Some(want)) = (spec.cwd, p.cwd) {
                assert!(std::ptr::eq(got.as_ptr(), want.0.as_ptr()) && got.len() == want.1, "post ok: cwd is the configured string");
            }
            assert!(std::ptr::eq(spec.stdin, &cmd.stdin), "post ok: stdin policy/text is the builder's own");
            assert!(spec.stdout == OutputPolicy::Capture && spec.stderr == OutputPolicy::Null, "post ok: output policies copied");
            assert!(spec.timeout_ms == t, "post ok: timeout is the configured one or the default");
        }
        Err(ProcessError::SpecInvalid(_)) => assert!(!ok, "post err: refused only when a configured limit is violated"),
        Err(_) => assert!(false, "post err: the error kind is SpecInvalid"),
    }
    std::mem::forget(cmd);
    ok
}

fn text1() -> (&'static str, usize, bool) {
    let (s, n, nul, _) = any_text::<1>();
    (s, n, nul)
}
fn key1() -> (&'static str, usize, bool, bool) {
    any_text::<1>()
}

fn generous() -> ProcessCaps {
    let mut c = ProcessCaps::defaults();
    c.max_timeout_ms = u32::MAX;
    c
}

// @harness property=C15 fn=ProcessCommand::validate kind=bounded tier=quick cfg=release timeout=900 domain="bounded: argument clauses -- 0..=2 args of 0..=1 byte over {a, =, NUL}; every max_args / max_arg_bytes / max_total_arg_bytes; other clauses satisfied"
#[kani::proof]
#[kani::unwind(8)]
fn validate__arguments() {
    let mut caps = generous();
    caps.max_args = kani::any();
    caps.max_arg_bytes = kani::any();
    caps.max_total_arg_bytes = kani::any();
    let nargs: usize = kani::any();
    kani::assume(nargs <= 2);
    let p = Parts { prog: A, args: [text1(), text1()], nargs, env: [((A.0, 1, false, false), A), ((A.0, 1, false, false), A)], nenv: 0,
                    cwd: None, stdin_text: None, stdin_null: false, timeout: Some(1) };
    let (n0, n1) = (p.args[0].1, p.args[1].1);
    let ok = check_validate(p, caps);
    kani::cover!(ok && nargs == 2, "cover: two arguments accepted");
    kani::cover!(!ok && nargs == 2 && n0 + n1 == 2 && caps.max_total_arg_bytes == 1 && caps.max_arg_bytes >= 1 && caps.max_args >= 2, "cover: refused by total argument bytes only");
    kani::cover!(!ok && nargs as u64 == caps.max_args as u64 + 1, "cover: one argument too many");
    kani::cover!(ok && nargs == 1 && n0 == 0, "cover: empty argument accepted");
}

// @harness property=C15 fn=ProcessCommand::validate kind=bounded tier=quick cfg=release timeout=900 domain="bounded: environment clauses -- 0..=2 pairs, key and value of 0..=1 byte over {a, =, NUL}; every max_env_pairs / max_env_key_bytes / max_env_value_bytes / max_total_env_bytes; other clauses satisfied"
#[kani::proof]
#[kani::unwind(8)]
fn validate__environment() {
    let mut caps = generous();
    caps.max_env_pairs = kani::any();
    caps.max_env_key_bytes = kani::any();
    caps.max_env_value_bytes = kani::any();
    caps.max_total_env_bytes = kani::any();
    let nenv: usize = kani::any();
    kani::assume(nenv <= 2);
    let p = Parts { prog: A, args: [A, A], nargs: 0, env: [(key1(), text1()), (key1(), text1())], nenv,
                    cwd: None, stdin_text: None, stdin_null: true, timeout: None };
    let k1eq = p.env[1].0 .3;
    let ok = check_validate(p, caps);
    kani::cover!(ok && nenv == 2, "cover: two pairs accepted");
    kani::cover!(!ok && nenv == 2 && k1eq, "cover: refused by '=' in the second key");
    kani::cover!(!ok && nenv == 2 && caps.max_total_env_bytes == 3 && caps.max_env_key_bytes >= 1 && caps.max_env_value_bytes >= 1 && caps.max_env_pairs >= 2, "cover: refused by total environment bytes only");
}

// @harness property=C15 fn=ProcessCommand::validate kind=bounded tier=quick cfg=release timeout=900 domain="bounded: program / cwd / stdin text of 0..=2 bytes over {a, =, NUL}; every max_program_bytes / max_cwd_bytes / max_stdin_bytes / default_timeout_ms / max_timeout_ms and every timeout; other clauses satisfied"
#[kani::proof]
#[kani::unwind(8)]
fn validate__program_cwd_stdin_timeout() {
    let mut caps = generous();
    caps.max_program_bytes = kani::any();
    caps.max_cwd_bytes = kani::any();
    caps.max_stdin_bytes = kani::any();
    caps.default_timeout_ms = kani::any();
    caps.max_timeout_ms = kani::any();
    let t2 = || { let (s, n, nul, _) = any_text::<2>(); (s, n, nul) };
    let has_cwd: bool = kani::any();
    let has_text: bool = kani::any();
    let timeout: Option<u32> = kani::any();
    let p = Parts { prog: t2(), args: [A, A], nargs: 1, env: [((A.0, 1, false, false), A), ((A.0, 1, false, false), A)], nenv: 1,
                    cwd: if has_cwd { Some(t2()) } else { None }, stdin_text: if has_text { Some(t2()) } else { None }, stdin_null: false, timeout };
    let ok = check_validate(p, caps);
    kani::cover!(ok && has_cwd && has_text, "cover: full command accepted");
    kani::cover!(!ok && timeout == Some(0), "cover: zero timeout refused");
    kani::cover!(ok && timeout.is_none(), "cover: default timeout used");
    kani::cover!(!ok && timeout.is_none() && caps.default_timeout_ms > caps.max_timeout_ms, "cover: default above the maximum refused");
}

// ProcessCommand::set_env(key, value)   "last write per key wins": keys are compared byte for byte
//   ensures  a pair with exactly this key exists  => its value is replaced by `value`, pair count and every other pair unchanged;
//            otherwise                            => (key, value) is appended at the end, earlier pairs unchanged
// @harness property=C15 fn=ProcessCommand::set_env kind=bounded tier=quick cfg=release timeout=600 domain="bounded: 0..=2 existing pairs, keys from {a, A, b} (case variants are distinct keys), new key symbolic over the same alphabet"
#[kani::proof]
#[kani::unwind(8)]
fn set_env__last_write_wins() {
    let arena = bk::mk_arena(1);
    const KEYS: [&str; 3] = ["a", "A", "b"];
    let pick = || -> usize { let k: usize = kani::any(); kani::assume(k < 3); k };
    let (i0, i1, inew) = (pick(), pick(), pick());
    kani::assume(i0 != i1); // keys already in the builder are unique (invariant established by set_env itself)
    let n: usize = kani::any();
    kani::assume(n <= 2);
    let slots: &'static mut [std::mem::MaybeUninit<EnvPair<'static>>; 3] = Box::leak(Box::new([const { std::mem::MaybeUninit::uninit() }; 3]));
    slots[0].write(EnvPair { key: as_arena_string(KEYS[i0], arena), value: as_arena_string("v0", arena) });
    slots[1].write(EnvPair { key: as_arena_string(KEYS[i1], arena), value: as_arena_string("v1", arena) });
    let mut cmd = ProcessCommand {
        program: as_arena_string("p", arena),
        args: Vec::new_in(arena),
        cwd: None,
        env: unsafe { Vec::from_raw_parts_in(slots.as_mut_ptr().cast::<EnvPair<'static>>(), n, 3, arena) },
        stdin: StdinPolicy::Inherit,
        stdout: OutputPolicy::Inherit,
        stderr: OutputPolicy::Inherit,
        timeout_ms: None,
    };
    cmd.set_env(as_arena_string(KEYS[inew], arena), as_arena_string("new", arena));
    let hit0 = n > 0 && i0 == inew;
    let hit1 = n > 1 && i1 == inew;
    if hit0 || hit1 {
        assert!(cmd.env.len() == n, "post hit: pair count unchanged");
        let h = if hit0 { 0 } else { 1 };
        assert!(cmd.env[h].value.as_str().as_ptr() == "new".as_ptr() && cmd.env[h].key.as_str().as_ptr() == KEYS[inew].as_ptr(), "post hit: the pair with exactly this key now holds the new value");
        if n == 2 {
            let o = 1 - h;
            assert!(cmd.env[o].value.as_str().as_ptr() == (if o == 0 { "v0" } else { "v1" }).as_ptr(), "frame hit: the other pair is untouched");
        }
    } else {
        assert!(cmd.env.len() == n + 1, "post miss: one pair appended");
        assert!(cmd.env[n].key.as_str().as_ptr() == KEYS[inew].as_ptr() && cmd.env[n].value.as_str().as_ptr() == "new".as_ptr(), "post miss: (key, value) appended at the end");
        if n > 0 {
            assert!(cmd.env[0].value.as_str().as_ptr() == "v0".as_ptr() && cmd.env[0].key.as_str().as_ptr() == KEYS[i0].as_ptr(), "frame miss: earlier pairs untouched");
        }
    }
    kani::cover!(hit1, "cover: overwrite of the second pair");
    kani::cover!(n == 2 && !hit0 && !hit1 && inew == 1, "cover: case variant of an existing key is a new key");
    kani::cover!(n == 0, "cover: first pair");
    std::mem::forget(cmd);
}

// ProcessCommand::push_arg appends exactly one argument at the end and changes nothing else
// @harness property=C15 fn=ProcessCommand::push_arg kind=bounded tier=quick cfg=release timeout=600 domain="bounded: 0..=2 existing arguments"
#[kani::proof]
#[kani::unwind(8)]
fn push_arg__appends() {
    let arena = bk::mk_arena(1);
    let n: usize = kani::any();
    kani::assume(n <= 2);
    let slots: &'static mut [std::mem::MaybeUninit<ArenaString<'static>>; 3] = Box::leak(Box::new([const { std::mem::MaybeUninit::uninit() }; 3]));
    slots[0].write(as_arena_string("x0", arena));
    slots[1].write(as_arena_string("x1", arena));
    let mut cmd = ProcessCommand {
        program: as_arena_string("p", arena),
        args: unsafe { Vec::from_raw_parts_in(slots.as_mut_ptr().cast::<ArenaString<'static>>(), n, 3, arena) },
        cwd: None,
        env: Vec::new_in(arena),
        stdin: StdinPolicy::Inherit,
        stdout: OutputPolicy::Inherit,
        stderr: OutputPolicy::Inherit,
        timeout_ms: None,
    };
    cmd.push_arg(as_arena_string("a b;$*", arena));
    assert!(cmd.args.len() == n + 1, "post: one argument more");
    assert!(cmd.args[n].as_str().as_ptr() == "a b;$*".as_ptr() && cmd.args[n].len() == 6, "post: the new argument is last, one argument, bytes untouched (no splitting)");
    if n > 0 {
        assert!(cmd.args[0].as_str().as_ptr() == "x0".as_ptr(), "frame: earlier arguments untouched and in order");
    }
    assert!(cmd.env.is_empty() && cmd.cwd.is_none() && cmd.timeout_ms.is_none(), "frame: other fields untouched");
    kani::cover!(n == 2, "cover: third argument");
    std::mem::forget(cmd);
}
