// @inject src/arena/pool.rs
// @needs bump.rs
// Contracts for src/arena/pool.rs (property C12; the PoolSet postconditions are also what C02 relies on).
// debug-cfg: the 0xDD poisoning, the poison assertion in Pool::alloc and every debug_assert! are inside the verified code.
#![cfg(debug_assertions)]
#![allow(non_snake_case, unused_imports, dead_code, clippy::all)]

use super::*;
include!("tier.rs");

// =====================================================================================================
// size_class / SLOT_SIZES / SLOT_COUNTS
//   for every n: u32:  n <= 256 => Some(c), c < 20, SLOT_SIZES[c] >= max(n,1), and c is the tightest class;
//                      n > 256  => None.   The table is strictly increasing, multiples of 8, every count > 0.
// =====================================================================================================
// @harness property=C12 fn=pool::size_class kind=proof tier=quick cfg=debug domain="loop-free; every u32"
#[kani::proof]
fn size_class__contract() {
    let n: u32 = kani::any();
    match size_class(n) {
        Some(c) => {
            assert!(n <= 256, "post some: only sizes <= 256 are pooled");
            assert!(c < CLASS_COUNT, "post some: class index in range");
            assert!(SLOT_SIZES[c as usize] >= n && SLOT_SIZES[c as usize] >= 1, "post some: slot at least as large as requested");
            assert!(c == 0 || SLOT_SIZES[c as usize - 1] < n, "post some: tightest class");
            kani::cover!(n == 0, "cover: zero");
            kani::cover!(c == 19, "cover: last class");
            kani::cover!(c == 16, "cover: first 32-byte-spaced class");
        }
        None => {
            assert!(n > 256, "post none: only sizes > 256 are refused");
            kani::cover!(true, "cover: oversized");
        }
    }
}

// @harness property=C12 fn=pool::SLOT_SIZES+SLOT_COUNTS kind=proof tier=quick cfg=debug domain="loop-free; every class index"
#[kani::proof]
fn slot_tables__wellformed() {
    let c: usize = kani::any();
    kani::assume(c < CLASS_COUNT as usize);
    assert!(SLOT_SIZES[c] % 8 == 0 && SLOT_SIZES[c] > 0, "table: slot sizes are positive multiples of 8");
    assert!(c == 0 || SLOT_SIZES[c - 1] < SLOT_SIZES[c], "table: slot sizes strictly increasing");
    assert!(SLOT_COUNTS[c] > 0, "table: every class has slots");
    assert!(SLOT_SIZES[CLASS_COUNT as usize - 1] == 256, "table: largest pooled size is 256");
    assert!(size_class(SLOT_SIZES[c]) == Some(c as u32), "table: a full slot maps to its own class");
    kani::cover!(c == 19, "cover: last");
}

// =====================================================================================================
// A Pool in an ARBITRARY well-formed state (inductive step: every reachable state is well-formed, so a contract
// proved from every well-formed state holds after every history).
//   wf: bump <= count; free.len <= bump; free entries distinct and < bump; live_count == bump - free.len;
//       (debug) every free slot is filled with 0xDD.          ghost live = { i < bump } \ free
// =====================================================================================================
const COUNT: u32 = if THOROUGH { 6 } else { 4 };
const MAX_SLOT: usize = 24;

struct PoolState {
    bump: u32,
    len: u32,
    free: [u32; COUNT as usize],
}

fn any_slot_size() -> u32 {
    let s: u32 = kani::any();
    kani::assume(s == 8 || s == 16 || s == 24);
    s
}

fn any_pool(slot_size: u32) -> (&'static Pool, PoolState) {
    let total = slot_size as usize * COUNT as usize;
    let block: &'static mut [u8] = vec![0u8; MAX_SLOT * COUNT as usize].leak();
    let idx: &'static mut [u32] = vec![0u32; COUNT as usize].leak();
    let bump: u32 = kani::any();
    let len: u32 = kani::any();
    kani::assume(bump <= COUNT && len <= bump);
    let free: [u32; COUNT as usize] = kani::any();
    let mut i = 0;
    while i < COUNT as usize {
        if (i as u32) < len {
            kani::assume(free[i] < bump);
            let mut j = 0;
            while j < i {
                kani::assume(free[j] != free[i]);
                j += 1;
            }
            idx[i] = free[i];
            // debug invariant: a free slot is poisoned
            let mut b = 0;
            while b < slot_size as usize {
                block[free[i] as usize * slot_size as usize + b] = 0xDD;
                b += 1;
            }
        }
        i += 1;
    }
    let _ = total;
    let pool = Box::leak(Box::new(Pool {
        block: SlotBlock { base: NonNull::new(block.as_mut_ptr()).unwrap(), slot_size, slot_count: COUNT, bump: Cell::new(bump) },
        free: FreeList { indices: NonNull::new(idx.as_mut_ptr()).unwrap(), capacity: COUNT, len: Cell::new(len) },
        live_count: Cell::new(bump - len),
    }));
    (pool, PoolState { bump, len, free })
}

fn is_free(st: &PoolState, i: u32) -> bool {
    let mut k = 0;
    while k < COUNT as usize {
        if (k as u32) < st.len && st.free[k] == i {
            return true;
        }
        k += 1;
    }
    false
}

fn pool_wf_after(p: &Pool) -> bool {
    let bump = p.block.bump.get();
    let len = p.free.len.get();
    bump <= COUNT && len <= bump && p.live_count.get() == bump - len
}

// Pool::alloc
//   ensures Some(p): p == slot_ptr(i) with i NOT live before (i was the top of the free list, or the first virgin slot),
//                    p.len() == slot_size, live' = live + {i}: free list loses exactly its top / bump advances by one,
//                    every other free entry unchanged, live_count + 1, conservation;
//           None <=> every slot is live (free list empty and no virgin slot left)
// @harness property=C12 fn=Pool::alloc kind=proof tier=quick cfg=debug timeout=600 domain="every wf state of a pool with 4 slots (6 thorough), slot_size in {8,16,24}; loops bounded by slot count/size are fully unwound (unwinding assertions on)"
#[kani::proof]
#[kani::unwind(26)]
fn pool_alloc__contract() {
    let slot_size = any_slot_size();
    let (pool, st) = any_pool(slot_size);
    let r = pool.alloc();
    let (bump1, len1) = (pool.block.bump.get(), pool.free.len.get());
    match r {
        Some(p) => {
            let off = p.cast::<u8>().as_ptr() as usize - pool.block.base.as_ptr() as usize;
            assert!(p.len() == slot_size as usize, "post some: len == slot_size");
            assert!(off % slot_size as usize == 0 && off / (slot_size as usize) < COUNT as usize, "post some: a slot of this block");
            let i = (off / slot_size as usize) as u32;
            let was_live = i < st.bump && !is_free(&st, i);
            assert!(!was_live, "post some: the slot was not live (never handed out twice)");
            if st.len > 0 {
                assert!(i == st.free[st.len as usize - 1], "post some: recycled slot is the top of the free list (LIFO)");
                assert!(len1 == st.len - 1 && bump1 == st.bump, "post some: free list shrinks by one, bump unchanged");
            } else {
                assert!(i == st.bump && bump1 == st.bump + 1 && len1 == 0, "post some: first virgin slot, bump advances by one");
            }
            assert!(pool.live_count.get() == st.bump - st.len + 1, "post some: live_count + 1");
            kani::cover!(st.len > 0, "cover: free-list path");
            kani::cover!(st.len == 0, "cover: virgin path");
        }
        None => {
            assert!(st.len == 0 && st.bump == COUNT, "post none: only when every slot is live");
            assert!(bump1 == st.bump && len1 == st.len && pool.live_count.get() == COUNT, "post none: state unchanged");
            kani::cover!(true, "cover: exhausted");
        }
    }
    assert!((st.len == 0 && st.bump == COUNT) == r.is_none(), "post: None <=> exhausted");
    assert!(pool_wf_after(pool), "post wf: conservation live + free + virgin == count");
    // frame: remaining free entries unchanged
    let k: usize = kani::any();
    kani::assume(k < COUNT as usize);
    if (k as u32) < len1 {
        assert!(unsafe { *pool.free.indices.as_ptr().add(k) } == st.free[k], "frame: other free entries unchanged");
    }
}

// Pool::dealloc(p)   requires p == slot_ptr(i), i live
//   ensures live' = live - {i}: free list gains exactly i on top, bump unchanged, live_count - 1, conservation,
//           (debug) the slot is poisoned with 0xDD so the next alloc's poison assertion holds
// @harness property=C12 fn=Pool::dealloc kind=proof tier=quick cfg=debug timeout=600 domain="every wf state of a pool with 4 slots (6 thorough), slot_size in {8,16,24}, every live slot"
#[kani::proof]
#[kani::unwind(26)]
fn pool_dealloc__contract() {
    let slot_size = any_slot_size();
    let (pool, st) = any_pool(slot_size);
    let i: u32 = kani::any();
    kani::assume(i < st.bump && !is_free(&st, i));
    let p = pool.block.slot_ptr(i);
    unsafe { pool.dealloc(p) };
    let (bump1, len1) = (pool.block.bump.get(), pool.free.len.get());
    assert!(bump1 == st.bump && len1 == st.len + 1, "post: free list grows by one, bump unchanged");
    assert!(unsafe { *pool.free.indices.as_ptr().add(st.len as usize) } == i, "post: the released slot is on top of the free list");
    assert!(pool.live_count.get() == st.bump - st.len - 1, "post: live_count - 1");
    assert!(pool_wf_after(pool), "post wf: conservation live + free + virgin == count");
    let k: usize = kani::any();
    if k < st.len as usize {
        assert!(unsafe { *pool.free.indices.as_ptr().add(k) } == st.free[k], "frame: other free entries unchanged");
    }
    let b: usize = kani::any();
    kani::assume(b < slot_size as usize);
    assert!(unsafe { *p.as_ptr().add(b) } == 0xDD, "post (debug): released slot is poisoned");
    kani::cover!(st.len > 0, "cover: release with non-empty free list");
    kani::cover!(st.len == 0, "cover: release into empty free list");
    // and the pair alloc-after-dealloc hands the same slot back (LIFO) without tripping the poison assertion
    let again = pool.alloc().unwrap();
    assert!(again.cast::<u8>() == p, "post: alloc after dealloc recycles the released slot");
}

// SlotBlock::slot_ptr / index_of / contains
//   index_of(slot_ptr(i)) == Some(i);  index_of(p) == None off-block or off a slot boundary;
//   contains(p) <=> base <= p < base + slot_size*slot_count            (for every address)
// @harness property=C12 fn=SlotBlock::slot_ptr+index_of+contains kind=proof tier=quick cfg=debug domain="loop-free; slot_size in all 20 class sizes, slot_count <= 16384; every usize address / every index"
#[kani::proof]
fn slotblock__contract() {
    let c: usize = kani::any();
    kani::assume(c < CLASS_COUNT as usize);
    let slot_size = SLOT_SIZES[c];
    let slot_count: u32 = kani::any();
    kani::assume(slot_count >= 1 && slot_count <= 16_384);
    let basep: usize = kani::any();
    kani::assume(basep >= 8 && basep % 8 == 0 && basep <= usize::MAX / 2);
    let blk = SlotBlock { base: NonNull::new(basep as *mut u8).unwrap(), slot_size, slot_count, bump: Cell::new(0) };
    let total = slot_size as usize * slot_count as usize;
    let addr: usize = kani::any();
    let inside = addr >= basep && addr - basep < total;
    assert!(blk.contains(addr as *const u8) == inside, "post contains: <=> base <= p < base + size*count");
    match blk.index_of(addr as *const u8) {
        Some(i) => {
            assert!(inside && i < slot_count && basep + i as usize * slot_size as usize == addr, "post index_of some: exact slot start inside the block");
        }
        None => {
            assert!(!inside || (addr - basep) % slot_size as usize != 0, "post index_of none: outside or not on a slot boundary");
        }
    }
    kani::cover!(inside && (addr - basep) % slot_size as usize == 0, "cover: slot start");
    kani::cover!(inside && (addr - basep) % slot_size as usize != 0, "cover: interior");
    kani::cover!(addr == basep + total, "cover: one past the end");
    kani::cover!(addr < basep, "cover: below");
}

// FreeList::push / pop   LIFO on the ghost sequence, writes inside the index array
// @harness property=C12 fn=FreeList::push+pop kind=proof tier=quick cfg=debug domain="loop-free; capacity 4, every len, every value"
#[kani::proof]
fn freelist__contract() {
    let idx: &'static mut [u32] = vec![0u32; 4].leak();
    let init: [u32; 4] = kani::any();
    idx.copy_from_slice(&init);
    let len: u32 = kani::any();
    kani::assume(len <= 4);
    let fl = FreeList { indices: NonNull::new(idx.as_mut_ptr()).unwrap(), capacity: 4, len: Cell::new(len) };
    if kani::any() {
        kani::assume(len < 4);
        let v: u32 = kani::any();
        fl.push(v);
        assert!(fl.len() == len + 1, "post push: len + 1");
        assert!(unsafe { *fl.indices.as_ptr().add(len as usize) } == v, "post push: value on top");
        let k: usize = kani::any();
        kani::assume(k < len as usize);
        assert!(unsafe { *fl.indices.as_ptr().add(k) } == init[k], "frame push: entries below unchanged");
        assert!(fl.pop() == Some(v) && fl.len() == len, "post: pop after push returns the pushed value");
        kani::cover!(len == 3, "cover: push into last cell");
    } else {
        let r = fl.pop();
        if len == 0 {
            assert!(r.is_none() && fl.len() == 0, "post pop: None on empty");
        } else {
            assert!(r == Some(init[len as usize - 1]) && fl.len() == len - 1, "post pop: top value, len - 1");
        }
        kani::cover!(len == 0, "cover: pop empty");
        kani::cover!(len > 0, "cover: pop non-empty");
    }
}
