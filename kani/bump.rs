// @inject src/arena/bump.rs
// Contracts for src/arena/bump.rs (property C11, shared by C14).
// Injected by /verif/check as `#[cfg(kani)] #[path = ".../kani/bump.rs"] mod verif_kani;` at the end of the
// real src/arena/bump.rs of a scratch copy of /repo: `super::*` is the real module, private items included.
// Every harness has the shape   any state satisfying pre  ->  call the REAL function  ->  assert post.
// The assert message is the obligation name reported by /verif/check.
#![allow(non_snake_case, unused_imports, dead_code, clippy::all)]

use super::*;
use crate::sys::VirtualMemory;
use std::alloc::{AllocError, Allocator, Layout};

pub(crate) const CHUNK: usize = ALLOC_CHUNK_SIZE;

// ---- external (foreign) code: mmap/mprotect/madvise. Contract: commit may fail; nothing else observable. ----
pub(crate) fn vm_commit_any(_base: NonNull<u8>, _size: usize) -> Result<(), u32> {
    if kani::any() { Ok(()) } else { Err(12) }
}
pub(crate) fn vm_commit_ok(_base: NonNull<u8>, _size: usize) -> Result<(), u32> {
    Ok(())
}
pub(crate) fn vm_decommit_nop(_base: NonNull<u8>, _size: usize) {}
pub(crate) fn vm_release_nop(_base: NonNull<u8>, _size: usize) {}

/// An arena laid over a zeroed heap buffer of `chunks` commit chunks (Arena::new goes through mmap).
/// The arena is leaked (`&'static`): `Drop` would call the foreign `munmap`.
pub(crate) fn mk_arena(chunks: usize) -> &'static Arena {
    let buf: &'static mut [u8] = vec![0u8; chunks * CHUNK].leak();
    Box::leak(Box::new(Arena {
        base: NonNull::new(buf.as_mut_ptr()).unwrap(),
        capacity: chunks * CHUNK,
        commit: Cell::new(0),
        offset: Cell::new(0),
        #[cfg(debug_assertions)]
        borrows: Cell::new(0),
    }))
}

/// Type invariant of `Arena` (derived from new/alloc_raw_bump/decommit/reset call sites).
pub(crate) fn wf(a: &Arena) -> bool {
    a.offset.get() <= a.commit.get()
        && a.commit.get() <= a.capacity
        && a.commit.get() % CHUNK == 0
        && a.capacity % CHUNK == 0
}

/// Any well-formed arena state over `chunks` chunks.
pub(crate) fn any_arena(max_chunks: usize) -> &'static Arena {
    let chunks: usize = kani::any();
    kani::assume(chunks >= 1 && chunks <= max_chunks);
    let a = mk_arena(chunks);
    let commit: usize = kani::any();
    let offset: usize = kani::any();
    a.commit.set(commit);
    a.offset.set(offset);
    kani::assume(wf(a));
    a
}

fn any_align() -> usize {
    let k: u32 = kani::any();
    kani::assume(k < usize::BITS - 1);
    1usize << k
}

include!("tier.rs");
const MAX_CHUNKS: usize = if THOROUGH { 3 } else { 2 };

fn roundup(x: usize) -> usize {
    (x + CHUNK - 1) / CHUNK * CHUNK
}

// =====================================================================================================
// alloc_raw (+ alloc_raw_bump)
//   requires wf, is_pow2(align), bytes <= isize::MAX - (align-1)            (the Layout invariant)
//   ensures Ok(p):  p.len()==bytes, old.offset <= beg < old.offset+align, beg % align == 0,
//                   beg+bytes == new.offset <= new.commit <= capacity, new.commit >= old.commit, wf
//           Err:    state unchanged, and only if roundup(end) > capacity or the OS refused to commit
//           frame:  no byte below old.offset and no byte at or above new.commit is written
// =====================================================================================================
// @harness property=C11,C14 fn=Arena::alloc_raw+alloc_raw_bump kind=proof tier=quick cfg=debug domain="loop-free; all offset/commit (wf), all bytes, align=1<<k for all k<63, capacity 1..2 chunks (3 thorough), OS commit may fail"
#[kani::proof]
#[kani::stub(<crate::sys::unix::UnixVirtualMemory as crate::sys::VirtualMemory>::commit, vm_commit_any)]
fn alloc_raw__contract() {
    let a = any_arena(MAX_CHUNKS);
    let (o0, c0, cap) = (a.offset.get(), a.commit.get(), a.capacity);
    let align = any_align();
    let bytes: usize = kani::any();
    kani::assume(bytes <= isize::MAX as usize - (align - 1));

    // frame witness: one arbitrary byte of the reservation
    let i: usize = kani::any();
    kani::assume(i < cap);
    let before = unsafe { *a.base.as_ptr().add(i) };

    let r = a.alloc_raw(bytes, align);

    let (o1, c1) = (a.offset.get(), a.commit.get());
    assert!(wf(a), "post wf preserved");
    assert!(a.capacity == cap, "post capacity unchanged");
    match r {
        Ok(p) => {
            let beg = p.cast::<u8>().as_ptr() as usize - a.base.as_ptr() as usize;
            assert!(p.len() == bytes, "post ok: len == bytes");
            assert!(beg >= o0, "post ok: block starts at or above old offset");
            assert!(beg - o0 < align, "post ok: padding < align");
            assert!(beg % align == 0, "post ok: offset-aligned");
            assert!(beg + bytes == o1, "post ok: new offset == end of block");
            assert!(o1 <= c1 && c1 <= cap, "post ok: block within commit within capacity");
            assert!(c1 >= c0, "post ok: commit monotone");
            assert!(c1 == c0 || c1 == roundup(o1), "post ok: commit grows to roundup(end) only");
            kani::cover!(c1 > c0, "cover: commit grew");
            kani::cover!(c1 == c0 && bytes > 0, "cover: fast path");
            kani::cover!(beg > o0, "cover: padding inserted");
            kani::cover!(bytes == 0, "cover: zero-size");
        }
        Err(AllocError) => {
            assert!(o1 == o0 && c1 == c0, "post err: state unchanged");
            kani::cover!(roundup(((o0 + align - 1) & !(align - 1)) + bytes) > cap, "cover: err by capacity");
            kani::cover!(roundup(((o0 + align - 1) & !(align - 1)) + bytes) <= cap, "cover: err by OS commit failure");
        }
    }
    let after = unsafe { *a.base.as_ptr().add(i) };
    if i < o0 || i >= c1 {
        assert!(after == before, "frame: bytes below old offset / above new commit untouched");
    }
    kani::cover!(i < o0, "cover: frame witness below offset");
}

/// With a cooperative OS, alloc_raw fails exactly when the rounded-up end exceeds the capacity ("fails cleanly").
// @harness property=C11 fn=Arena::alloc_raw+alloc_raw_bump kind=proof tier=quick cfg=debug domain="loop-free; same domain; OS commit always succeeds"
#[kani::proof]
#[kani::stub(<crate::sys::unix::UnixVirtualMemory as crate::sys::VirtualMemory>::commit, vm_commit_ok)]
fn alloc_raw__fails_iff_does_not_fit() {
    let a = any_arena(MAX_CHUNKS);
    let (o0, c0, cap) = (a.offset.get(), a.commit.get(), a.capacity);
    let align = any_align();
    let bytes: usize = kani::any();
    kani::assume(bytes <= isize::MAX as usize - (align - 1));
    let end = ((o0 + align - 1) & !(align - 1)) + bytes;
    let r = a.alloc_raw(bytes, align);
    assert!(r.is_err() == (end > c0 && roundup(end) > cap), "post: Err iff roundup(end) > capacity");
    kani::cover!(r.is_err(), "cover: err");
    kani::cover!(r.is_ok(), "cover: ok");
}
