// @inject src/arena/bump.rs
// @append src/arena/mod.rs: pub(crate) use bump::verif_kani as verif_bump;
// Contracts for src/arena/bump.rs (property C11, shared by C14).
// Injected by /verif/check as `#[cfg(kani)] #[path = ".../kani/bump.rs"] mod verif_kani;` at the end of the
// real src/arena/bump.rs of a scratch copy of /repo: `super::*` is the real module, private items included.
// Every harness has the shape   any state satisfying pre  ->  call the REAL function  ->  assert post.
// The assert message is the obligation name reported by /verif/check.
#![allow(non_snake_case, unused_imports, dead_code, clippy::all)]

use super::*;
use crate::sys::VirtualMemory;
use std::alloc::{AllocError, Allocator, Layout};

pub(crate) const CHUNK: usize = ALLOC_CHUNK_SIZE;

// ---- external (foreign) code: mmap/mprotect/madvise. Contract: commit may fail; nothing else observable. ----
pub(crate) fn vm_commit_any(_base: NonNull<u8>, _size: usize) -> Result<(), u32> {
    if kani::any() { Ok(()) } else { Err(12) }
}
pub(crate) fn vm_commit_ok(_base: NonNull<u8>, _size: usize) -> Result<(), u32> {
    Ok(())
}
pub(crate) fn vm_decommit_nop(_base: NonNull<u8>, _size: usize) {}
pub(crate) fn vm_release_nop(_base: NonNull<u8>, _size: usize) {}

/// An arena laid over a zeroed heap buffer of `chunks` commit chunks (Arena::new goes through mmap).
/// The arena is leaked (`&'static`): `Drop` would call the foreign `munmap`.
pub(crate) fn mk_arena(chunks: usize) -> &'static Arena {
    // page-aligned so that the real mprotect/madvise accept the range when a counterexample is replayed natively
    let lay = Layout::from_size_align(chunks * CHUNK, 4096).unwrap();
    let buf = unsafe { std::alloc::alloc_zeroed(lay) };
    Box::leak(Box::new(Arena {
        base: NonNull::new(buf).unwrap(),
        capacity: chunks * CHUNK,
        commit: Cell::new(0),
        offset: Cell::new(0),
        #[cfg(debug_assertions)]
        borrows: Cell::new(0),
    }))
}

/// Type invariant of `Arena` (derived from new/alloc_raw_bump/decommit/reset call sites).
pub(crate) fn wf(a: &Arena) -> bool {
    a.offset.get() <= a.commit.get()
        && a.commit.get() <= a.capacity
        && a.commit.get() % CHUNK == 0
        && a.capacity % CHUNK == 0
}

/// Any well-formed arena state over `chunks` chunks.
pub(crate) fn any_arena(max_chunks: usize) -> &'static Arena {
    let chunks: usize = kani::any();
    kani::assume(chunks >= 1 && chunks <= max_chunks);
    let a = mk_arena(chunks);
    let commit: usize = kani::any();
    let offset: usize = kani::any();
    a.commit.set(commit);
    a.offset.set(offset);
    kani::assume(wf(a));
    a
}

fn any_align() -> usize {
    let k: u32 = kani::any();
    kani::assume(k < usize::BITS - 1);
    1usize << k
}

include!("tier.rs");
const MAX_CHUNKS: usize = if THOROUGH { 3 } else { 2 };

fn roundup(x: usize) -> usize {
    (x + CHUNK - 1) / CHUNK * CHUNK
}

// =====================================================================================================
// alloc_raw (+ alloc_raw_bump)
//   requires wf, is_pow2(align), bytes <= isize::MAX - (align-1)            (the Layout invariant)
//   ensures Ok(p):  p.len()==bytes, old.offset <= beg < old.offset+align, beg % align == 0,
//                   beg+bytes == new.offset <= new.commit <= capacity, new.commit >= old.commit, wf
//           Err:    state unchanged, and only if roundup(end) > capacity or the OS refused to commit
//           frame:  no byte below old.offset and no byte at or above new.commit is written
// =====================================================================================================
// @harness property=C11,C14 fn=Arena::alloc_raw+alloc_raw_bump kind=proof tier=quick cfg=debug domain="loop-free; all offset/commit (wf), all bytes, align=1<<k for all k<63, capacity 1..2 chunks (3 thorough), OS commit may fail"
#[kani::proof]
#[kani::stub(<crate::sys::unix::UnixVirtualMemory as crate::sys::VirtualMemory>::commit, vm_commit_any)]
fn alloc_raw__contract() {
    let a = any_arena(MAX_CHUNKS);
    let (o0, c0, cap) = (a.offset.get(), a.commit.get(), a.capacity);
    let align = any_align();
    let bytes: usize = kani::any();
    kani::assume(bytes <= isize::MAX as usize - (align - 1));

    // frame witness: one arbitrary byte of the reservation
    let i: usize = kani::any();
    kani::assume(i < cap);
    let before = unsafe { *a.base.as_ptr().add(i) };

    let r = a.alloc_raw(bytes, align);

    let (o1, c1) = (a.offset.get(), a.commit.get());
    assert!(wf(a), "post wf preserved");
    assert!(a.capacity == cap, "post capacity unchanged");
    match r {
        Ok(p) => {
            let beg = p.cast::<u8>().as_ptr() as usize - a.base.as_ptr() as usize;
            assert!(p.len() == bytes, "post ok: len == bytes");
            assert!(beg >= o0, "post ok: block starts at or above old offset");
            assert!(beg - o0 < align, "post ok: padding < align");
            assert!(beg % align == 0, "post ok: offset-aligned");
            assert!(beg + bytes == o1, "post ok: new offset == end of block");
            assert!(o1 <= c1 && c1 <= cap, "post ok: block within commit within capacity");
            assert!(c1 >= c0, "post ok: commit monotone");
            assert!(c1 == c0 || c1 == roundup(o1), "post ok: commit grows to roundup(end) only");
            kani::cover!(c1 > c0, "cover: commit grew");
            kani::cover!(c1 == c0 && bytes > 0, "cover: fast path");
            kani::cover!(beg > o0, "cover: padding inserted");
            kani::cover!(bytes == 0, "cover: zero-size");
        }
        Err(AllocError) => {
            assert!(o1 == o0 && c1 == c0, "post err: state unchanged");
            kani::cover!(roundup(((o0 + align - 1) & !(align - 1)) + bytes) > cap, "cover: err by capacity");
            kani::cover!(roundup(((o0 + align - 1) & !(align - 1)) + bytes) <= cap, "cover: err by OS commit failure");
        }
    }
    let after = unsafe { *a.base.as_ptr().add(i) };
    if i < o0 || i >= c1 {
        assert!(after == before, "frame: bytes below old offset / above new commit untouched");
    }
    kani::cover!(i < o0, "cover: frame witness below offset");
}

/// With a cooperative OS, alloc_raw fails exactly when the rounded-up end exceeds the capacity ("fails cleanly").
// @harness property=C11 fn=Arena::alloc_raw+alloc_raw_bump kind=proof tier=quick cfg=debug domain="loop-free; same domain; OS commit always succeeds"
#[kani::proof]
#[kani::stub(<crate::sys::unix::UnixVirtualMemory as crate::sys::VirtualMemory>::commit, vm_commit_ok)]
fn alloc_raw__fails_iff_does_not_fit() {
    let a = any_arena(MAX_CHUNKS);
    let (o0, c0, cap) = (a.offset.get(), a.commit.get(), a.capacity);
    let align = any_align();
    let bytes: usize = kani::any();
    kani::assume(bytes <= isize::MAX as usize - (align - 1));
    let end = ((o0 + align - 1) & !(align - 1)) + bytes;
    let r = a.alloc_raw(bytes, align);
    assert!(r.is_err() == (end > c0 && roundup(end) > cap), "post: Err iff roundup(end) > capacity");
    kani::cover!(r.is_err(), "cover: err");
    kani::cover!(r.is_ok(), "cover: ok");
}

// =====================================================================================================
// reset(to)      requires wf, to <= offset   (call sites: ScratchArena::drop, scratch::init, Runtime frame resets)
//                ensures offset' == to, commit unchanged, every byte below `to` and at/above commit untouched
// =====================================================================================================
// @harness property=C11,C14,C02 fn=Arena::reset kind=proof tier=quick cfg=debug domain="loop-free; all wf states, all to <= offset; debug 0xDD fill included"
#[kani::proof]
fn reset__contract() {
    let a = any_arena(MAX_CHUNKS);
    let (o0, c0, cap) = (a.offset.get(), a.commit.get(), a.capacity);
    let to: usize = kani::any();
    kani::assume(to <= o0);
    let i: usize = kani::any();
    kani::assume(i < cap);
    let before = unsafe { *a.base.as_ptr().add(i) };
    unsafe { a.reset(to) };
    assert!(a.offset.get() == to, "post: offset == to");
    assert!(a.commit.get() == c0 && a.capacity == cap, "post: commit and capacity unchanged");
    assert!(wf(a), "post wf preserved");
    let after = unsafe { *a.base.as_ptr().add(i) };
    if i < to || i >= c0 {
        assert!(after == before, "frame: bytes below the mark / above commit untouched");
    }
    kani::cover!(to < o0 && i < to, "cover: real reset, witness below mark");
    kani::cover!(to == o0, "cover: no-op reset");
    kani::cover!(o0 + 128 > c0 && to < o0, "cover: fill clipped at commit");
}

// =====================================================================================================
// decommit()     requires wf
//                ensures offset unchanged, commit' == min(commit, roundup(offset)), wf,
//                the OS is asked to drop exactly [commit', commit) and only when that range is non-empty
// =====================================================================================================
static mut DECOMMIT_CALLS: usize = 0;
static mut DECOMMIT_OFF: usize = 0;
static mut DECOMMIT_LEN: usize = 0;
static mut DECOMMIT_BASE: usize = 0;
fn vm_decommit_record(base: NonNull<u8>, size: usize) {
    unsafe {
        DECOMMIT_CALLS += 1;
        DECOMMIT_OFF = base.as_ptr() as usize - DECOMMIT_BASE;
        DECOMMIT_LEN = size;
    }
}

// @harness property=C11,C14 fn=Arena::decommit kind=proof tier=quick cfg=debug domain="loop-free; all wf states"
#[kani::proof]
#[kani::stub(<crate::sys::unix::UnixVirtualMemory as crate::sys::VirtualMemory>::decommit, vm_decommit_record)]
fn decommit__contract() {
    let a = any_arena(MAX_CHUNKS);
    let (o0, c0, cap) = (a.offset.get(), a.commit.get(), a.capacity);
    unsafe { DECOMMIT_BASE = a.base.as_ptr() as usize };
    a.decommit();
    let c1 = a.commit.get();
    assert!(a.offset.get() == o0 && a.capacity == cap, "post: offset and capacity unchanged");
    assert!(wf(a), "post wf preserved");
    assert!(c1 == if roundup(o0) < c0 { roundup(o0) } else { c0 }, "post: commit' == min(commit, roundup(offset))");
    unsafe {
        if c1 < c0 {
            assert!(DECOMMIT_CALLS == 1 && DECOMMIT_OFF == c1 && DECOMMIT_LEN == c0 - c1, "post: OS drops exactly [commit', commit)");
        } else {
            assert!(DECOMMIT_CALLS == 0, "post: no OS call when nothing to drop");
        }
    }
    kani::cover!(c1 < c0, "cover: pages released");
    kani::cover!(c1 == c0, "cover: nothing to release");
}

// =====================================================================================================
// Allocator::grow(ptr, old, new)
//   requires wf; [pb, pb+old.size) is a block below offset, aligned to old.align; new.size >= old.size; new.align <= old.align
//   ensures  tail (pb+old == offset):  Ok => same pointer, offset' == offset + (new-old);
//            else:                     Ok => fresh block per alloc_raw contract (at/above old offset, aligned to new.align)
//            both: len == new.size, first old.size bytes of the result equal the old block, the old block is untouched;
//            Err => state unchanged
// =====================================================================================================
fn any_block(a: &Arena, max_size: usize) -> (usize, Layout) {
    let k: u32 = kani::any();
    kani::assume(k <= 6);
    let align = 1usize << k;
    let size: usize = kani::any();
    kani::assume(size <= max_size);
    let pb: usize = kani::any();
    kani::assume(pb % align == 0 && pb <= a.offset.get() && size <= a.offset.get() - pb);
    (pb, Layout::from_size_align(size, align).unwrap())
}

const GROW_MAX: usize = if THOROUGH { 4096 } else { 256 };

// @harness property=C11 fn="<Arena as Allocator>::grow" kind=proof tier=quick cfg=debug timeout=600 domain="loop-free; all wf states; any block below offset (size <= 256, 4096 thorough; align <= 64); new size <= old + 256 (4096); positions/offsets only (contents: grow__content_scenarios)"
#[kani::proof]
#[kani::stub(<crate::sys::unix::UnixVirtualMemory as crate::sys::VirtualMemory>::commit, vm_commit_any)]
fn grow__contract() {
    let a = any_arena(MAX_CHUNKS);
    let (o0, c0) = (a.offset.get(), a.commit.get());
    let (pb, old) = any_block(a, GROW_MAX);
    let extra: usize = kani::any();
    kani::assume(extra <= GROW_MAX);
    let k2: u32 = kani::any();
    kani::assume(k2 <= 6 && (1usize << k2) <= old.align());
    let new = Layout::from_size_align(old.size() + extra, 1usize << k2).unwrap();
    let base = a.base.as_ptr();
    let ptr = unsafe { NonNull::new_unchecked(base.add(pb)) };

    let r = unsafe { a.grow(ptr, old, new) };

    assert!(wf(a), "post wf preserved");
    match r {
        Ok(p) => {
            let nb = p.cast::<u8>().as_ptr() as usize - base as usize;
            assert!(p.len() == new.size(), "post ok: len == new size");
            assert!(nb & (new.align() - 1) == 0, "post ok: aligned to new layout");
            if pb + old.size() == o0 {
                assert!(nb == pb, "post ok tail: grown in place");
                assert!(a.offset.get() == o0 + extra, "post ok tail: offset advanced by the delta only");
            } else {
                assert!(nb >= o0, "post ok non-tail: fresh block at or above the old offset (disjoint from the old block)");
                assert!(a.offset.get() == nb + new.size(), "post ok non-tail: offset == end of new block");
            }
            assert!(a.offset.get() <= a.commit.get(), "post ok: within commit");
            kani::cover!(pb + old.size() == o0 && extra > 0, "cover: tail grow");
            kani::cover!(pb + old.size() != o0 && old.size() > 0, "cover: non-tail grow (copy)");
            kani::cover!(a.commit.get() > c0, "cover: grow crossed a commit boundary");
        }
        Err(_) => {
            assert!(a.offset.get() == o0 && a.commit.get() == c0, "post err: state unchanged");
            kani::cover!(true, "cover: grow failed");
        }
    }
}

// Contents across grow / grow_zeroed / Vec growth: concrete layout, symbolic bytes (memcpy between two symbolic
// positions of one 64 KiB object does not terminate in CBMC, see DESIGN.md section 4).
// @harness property=C11 fn="<Arena as Allocator>::grow+grow_zeroed" kind=bounded tier=quick cfg=debug timeout=600 domain="bounded: fixed scenario (blocks of 5, 3, 12, 20 bytes at offset 0 of a fresh arena; tail and non-tail grow, grow_zeroed), all byte contents symbolic"
#[kani::proof]
#[kani::stub(<crate::sys::unix::UnixVirtualMemory as crate::sys::VirtualMemory>::commit, vm_commit_ok)]
fn grow__content_scenarios() {
    let a = mk_arena(1);
    let l5 = Layout::from_size_align(5, 1).unwrap();
    let l3 = Layout::from_size_align(3, 1).unwrap();
    let l12 = Layout::from_size_align(12, 1).unwrap();
    let l20 = Layout::from_size_align(20, 1).unwrap();
    let pa = a.allocate(l5).unwrap().cast::<u8>();
    let va: [u8; 5] = kani::any();
    unsafe { std::ptr::copy_nonoverlapping(va.as_ptr(), pa.as_ptr(), 5) };
    let pb = a.allocate(l3).unwrap().cast::<u8>();
    let vb: [u8; 3] = kani::any();
    unsafe { std::ptr::copy_nonoverlapping(vb.as_ptr(), pb.as_ptr(), 3) };
    // A is not the tail: grow must copy
    let pa2 = unsafe { a.grow(pa, l5, l12) }.unwrap();
    let qa2 = pa2.cast::<u8>().as_ptr();
    assert!(pa2.len() == 12, "scenario: non-tail grow len");
    assert!(qa2 as usize >= pb.as_ptr() as usize + 3, "scenario: non-tail grow lands above every live block");
    let mut i = 0;
    while i < 5 {
        assert!(unsafe { *qa2.add(i) } == va[i], "scenario: non-tail grow preserves contents");
        assert!(unsafe { *pa.as_ptr().add(i) } == va[i], "scenario: non-tail grow leaves the old block untouched");
        i += 1;
    }
    i = 0;
    while i < 3 {
        assert!(unsafe { *pb.as_ptr().add(i) } == vb[i], "scenario: neighbour block untouched by grow");
        i += 1;
    }
    // A' is now the tail: grow_zeroed in place
    let off_before = a.offset.get();
    let pa3 = unsafe { a.grow_zeroed(pa2.cast(), l12, l20) }.unwrap();
    let qa3 = pa3.cast::<u8>().as_ptr();
    assert!(qa3 == qa2 && pa3.len() == 20 && a.offset.get() == off_before + 8, "scenario: tail grow in place by the delta");
    i = 0;
    while i < 5 {
        assert!(unsafe { *qa3.add(i) } == va[i], "scenario: tail grow preserves contents");
        i += 1;
    }
    i = 12;
    while i < 20 {
        assert!(unsafe { *qa3.add(i) } == 0, "scenario: grow_zeroed zeroes exactly the new bytes");
        i += 1;
    }
    kani::cover!(true, "cover: scenario completed");
}

// Vec<u8, &Arena> growth goes through allocate/grow only: contents survive interleaved growth of two vectors.
// @harness property=C11 fn="Vec<u8,&Arena>::push -> Allocator::grow" kind=bounded tier=quick cfg=debug timeout=600 domain="bounded: two vectors, 9 and 5 pushes interleaved (RawVec growth 0->8->16), symbolic bytes"
#[kani::proof]
#[kani::unwind(10)]
#[kani::stub(<crate::sys::unix::UnixVirtualMemory as crate::sys::VirtualMemory>::commit, vm_commit_ok)]
fn vec_growth__contents_preserved() {
    let a = mk_arena(1);
    let xs: [u8; 9] = kani::any();
    let ys: [u8; 5] = kani::any();
    let mut v: Vec<u8, &Arena> = Vec::new_in(a);
    let mut w: Vec<u8, &Arena> = Vec::new_in(a);
    let mut i = 0;
    while i < 9 {
        v.push(xs[i]);
        if i < 5 {
            w.push(ys[i]);
        }
        i += 1;
    }
    i = 0;
    while i < 9 {
        assert!(v[i] == xs[i], "vec: first vector keeps its contents across non-tail growth");
        if i < 5 {
            assert!(w[i] == ys[i], "vec: second vector keeps its contents");
        }
        i += 1;
    }
    let (vb, wb) = (v.as_ptr() as usize, w.as_ptr() as usize);
    assert!(vb + v.capacity() <= wb || wb + w.capacity() <= vb, "vec: live buffers are disjoint");
    kani::cover!(v.capacity() >= 16, "cover: vector grew twice");
}

// @harness property=C11 fn="<Arena as Allocator>::allocate_zeroed" kind=proof tier=quick cfg=debug domain="all wf states; size <= 4096 (content checked at a symbolic index), align <= 64"
#[kani::proof]
#[kani::stub(<crate::sys::unix::UnixVirtualMemory as crate::sys::VirtualMemory>::commit, vm_commit_any)]
fn allocate_zeroed__contract() {
    let a = any_arena(MAX_CHUNKS);
    let o0 = a.offset.get();
    let k: u32 = kani::any();
    kani::assume(k <= 6);
    let size: usize = kani::any();
    kani::assume(size <= 4096);
    let lay = Layout::from_size_align(size, 1usize << k).unwrap();
    let w: usize = kani::any();
    kani::assume(w < a.capacity);
    unsafe { *a.base.as_ptr().add(w) = 0xAB };
    let z: usize = kani::any();
    kani::assume(z < size);
    if let Ok(p) = a.allocate_zeroed(lay) {
        let q = p.cast::<u8>().as_ptr();
        assert!(p.len() == size, "post ok: len == size");
        assert!(unsafe { *q.add(z) } == 0, "post ok: every byte is zero");
        assert!((q as usize - a.base.as_ptr() as usize) >= o0, "post ok: block at or above old offset");
        assert!((q as usize - a.base.as_ptr() as usize) % lay.align() == 0, "post ok: aligned");
        kani::cover!(size > 0, "cover: allocate_zeroed ok");
    }
}

// =====================================================================================================
// Allocator::shrink     tail: offset' == offset - old + new, same pointer, len == new.size
//                       non-tail (release builds; debug builds assert): block and state unchanged, len == old.size
// =====================================================================================================
// @harness property=C11 fn="<Arena as Allocator>::shrink" kind=proof tier=quick cfg=debug domain="loop-free; all wf states; tail block of any size <= offset"
#[kani::proof]
fn shrink__tail_contract() {
    let a = any_arena(MAX_CHUNKS);
    let (o0, c0) = (a.offset.get(), a.commit.get());
    let old_size: usize = kani::any();
    kani::assume(old_size <= o0);
    let new_size: usize = kani::any();
    kani::assume(new_size <= old_size);
    let pb = o0 - old_size;
    let old = Layout::from_size_align(old_size, 1).unwrap();
    let new = Layout::from_size_align(new_size, 1).unwrap();
    let ptr = unsafe { NonNull::new_unchecked(a.base.as_ptr().add(pb)) };
    let r = unsafe { a.shrink(ptr, old, new) };
    let p = r.unwrap();
    assert!(p.cast::<u8>() == ptr && p.len() == new_size, "post tail: same pointer, len == new size");
    assert!(a.offset.get() == pb + new_size && a.commit.get() == c0, "post tail: offset == block start + new size");
    assert!(wf(a), "post wf preserved");
    kani::cover!(new_size < old_size, "cover: real shrink");
}

// =====================================================================================================
// contains_ptr(p)   <=>  base <= p < base + capacity     for every address, including ones that wrap
// =====================================================================================================
// @harness property=C11,C02 fn=Arena::contains_ptr kind=proof tier=quick cfg=debug domain="loop-free; every usize address"
#[kani::proof]
fn contains_ptr__contract() {
    let a = any_arena(MAX_CHUNKS);
    let addr: usize = kani::any();
    let base = a.base.as_ptr() as usize;
    let inside = addr >= base && addr - base < a.capacity;
    assert!(a.contains_ptr(addr as *const u8) == inside, "post: contains_ptr(p) <=> base <= p < base + capacity");
    kani::cover!(inside, "cover: inside");
    kani::cover!(addr < base, "cover: below base");
    kani::cover!(addr >= base && !inside, "cover: above end");
}

// =====================================================================================================
// Arena::new(capacity)   requires capacity <= isize::MAX
//                        ensures Ok(a) => a.capacity == roundup(max(capacity,1)) >= capacity, offset == commit == 0
// =====================================================================================================
fn vm_reserve_fixed(_size: usize) -> Result<NonNull<u8>, u32> {
    if kani::any() { Ok(NonNull::from(Box::leak(Box::new(0u8)))) } else { Err(12) }
}

// @harness property=C11 fn=Arena::new kind=proof tier=quick cfg=debug domain="loop-free; every capacity <= isize::MAX; reserve may fail"
#[kani::proof]
#[kani::stub(<crate::sys::unix::UnixVirtualMemory as crate::sys::VirtualMemory>::reserve, vm_reserve_fixed)]
fn new__contract() {
    let capacity: usize = kani::any();
    kani::assume(capacity <= isize::MAX as usize);
    match Arena::new(capacity) {
        Ok(a) => {
            assert!(a.capacity >= capacity && a.capacity >= 1, "post ok: capacity covers the request");
            assert!(a.capacity % CHUNK == 0 && a.capacity - capacity.max(1) < CHUNK, "post ok: capacity == roundup64K(max(request,1))");
            assert!(a.offset.get() == 0 && a.commit.get() == 0, "post ok: empty and nothing committed");
            assert!(wf(&a), "post ok: wf");
            kani::cover!(capacity == 0, "cover: zero request");
            kani::cover!(capacity % CHUNK == 0 && capacity > 0, "cover: exact multiple");
            std::mem::forget(a);
        }
        Err(_) => {
            kani::cover!(true, "cover: reserve failed");
        }
    }
}

// =====================================================================================================
// alloc_uninit_slice::<T>(count)   ensures the returned slice has `count` elements that all lie inside the
//                                  reservation above the old offset (no wrap-around of size_of::<T>() * count)
// =====================================================================================================
// A panic is a clean failure ("fails cleanly instead of returning out-of-bounds memory"): paths that end in
// Result::unwrap/expect on Err simply stop; what is checked is every path on which the call RETURNS.
fn unwrap_or_stop<T, E: std::fmt::Debug>(r: Result<T, E>) -> T {
    match r {
        Ok(t) => t,
        Err(_) => {
            kani::assume(false);
            loop {}
        }
    }
}
fn expect_or_stop<T, E: std::fmt::Debug>(r: Result<T, E>, _msg: &str) -> T {
    unwrap_or_stop(r)
}

// @harness property=C11 fn=Arena::alloc_uninit_slice kind=proof tier=quick cfg=release domain="loop-free; T=u64; every count; every wf state of a 1-chunk arena; release arithmetic (wrapping multiply)"
#[kani::proof]
#[kani::stub(<crate::sys::unix::UnixVirtualMemory as crate::sys::VirtualMemory>::commit, vm_commit_ok)]
#[kani::stub(std::result::Result::unwrap, unwrap_or_stop)]
#[kani::stub(std::result::Result::expect, expect_or_stop)]
fn alloc_uninit_slice__contract() {
    let a = any_arena(1);
    let o0 = a.offset.get();
    let count: usize = kani::any();
    let s = a.alloc_uninit_slice::<u64>(count);
    // reached only when the call returned
    let beg = s.as_ptr() as usize - a.base.as_ptr() as usize;
    assert!(s.len() == count, "post: count elements");
    assert!(count <= a.capacity / 8, "post: a returned slice fits the reservation (size_of::<T>() * count did not wrap)");
    assert!(beg >= o0 && beg % 8 == 0 && a.offset.get() - beg == count * 8, "post: block above old offset, aligned, offset == end");
    kani::cover!(count > 0, "cover: non-empty slice returned");
    kani::cover!(count == 0, "cover: empty slice returned");
}

// ---- accessors for harnesses in sibling modules (scratch.rs, pool.rs, ...): Arena's fields are private to bump.rs ----
pub(crate) fn set_state(a: &Arena, offset: usize, commit: usize) {
    a.offset.set(offset);
    a.commit.set(commit);
}
pub(crate) fn commit_of(a: &Arena) -> usize {
    a.commit.get()
}
pub(crate) fn capacity_of(a: &Arena) -> usize {
    a.capacity
}
pub(crate) fn base_of(a: &Arena) -> *mut u8 {
    a.base.as_ptr()
}
/// Moves a leaked arena's state into a by-value `Arena` (for `static mut S_SCRATCH`), leaving no second owner behind.
pub(crate) fn arena_value(chunks: usize, offset: usize, commit: usize) -> Arena {
    let a = mk_arena(chunks);
    Arena {
        base: a.base,
        capacity: a.capacity,
        commit: Cell::new(commit),
        offset: Cell::new(offset),
        #[cfg(debug_assertions)]
        borrows: Cell::new(0),
    }
}
