// @inject src/analysis/summary.rs
// @needs bump.rs
// Contracts for src/analysis/summary.rs (property C03): what a caller inherits from the functions it calls.
#![cfg(not(debug_assertions))]
#![allow(non_snake_case, unused_imports, dead_code, clippy::all)]

use super::*;
use crate::analysis::facts::FunctionDirectFacts;
use crate::arena::verif_bump as bk;

/// A Vec over leaked heap storage with spare capacity (pushes never reach the allocator).
fn leak_vec_cap<T: 'static + Copy>(items: &[T], cap: usize, arena: &'static Arena) -> Vec<T, &'static Arena> {
    let mut store: Vec<std::mem::MaybeUninit<T>> = Vec::with_capacity(cap);
    let mut i = 0;
    while i < cap {
        store.push(if i < items.len() { std::mem::MaybeUninit::new(items[i]) } else { std::mem::MaybeUninit::uninit() });
        i += 1;
    }
    let b: &'static mut [std::mem::MaybeUninit<T>] = Box::leak(store.into_boxed_slice());
    unsafe { Vec::from_raw_parts_in(b.as_mut_ptr().cast::<T>(), items.len(), cap, arena) }
}
fn leak_vec<T: 'static>(items: Vec<T>, arena: &'static Arena) -> Vec<T, &'static Arena> {
    let n = items.len();
    let b: &'static mut [T] = Box::leak(items.into_boxed_slice());
    unsafe { Vec::from_raw_parts_in(b.as_mut_ptr(), n, n, arena) }
}
fn any_class() -> ExprClass {
    let k: u8 = kani::any();
    kani::assume(k < 3);
    match k {
        0 => ExprClass::PureNoTrap,
        1 => ExprClass::PureMayTrap,
        _ => ExprClass::Impure,
    }
}
fn mk_summary(arena: &'static Arena, available: bool, body: ExprClass, transitive: ExprClass, callees: &[FunctionId], reads: &[LocalId], writes: &[LocalId]) -> FunctionSummary<'static> {
    FunctionSummary {
        available,
        direct_callees: leak_vec_cap(callees, 4, arena),
        transitive_callees: leak_vec_cap(callees, 4, arena),
        direct_capture_reads: leak_vec_cap(reads, 4, arena),
        direct_capture_writes: leak_vec_cap(writes, 4, arena),
        body_class: body,
        transitive_capture_reads: leak_vec_cap(reads, 4, arena),
        transitive_capture_writes: leak_vec_cap(writes, 4, arena),
        transitive_class: transitive,
    }
}

// mark_component_unavailable: every member becomes unavailable, Impure, with empty transitive sets
// @harness property=C03 fn=summary::mark_component_unavailable kind=bounded tier=quick cfg=release timeout=600 domain="bounded: component of two functions with arbitrary classes"
#[kani::proof]
#[kani::unwind(8)]
fn mark_component_unavailable__contract() {
    let arena = bk::mk_arena(1);
    let summaries: &'static mut [FunctionSummary<'static>] = Box::leak(vec![
        mk_summary(arena, true, any_class(), any_class(), &[FunctionId(1)], &[LocalId(1)], &[]),
        mk_summary(arena, true, any_class(), any_class(), &[FunctionId(0)], &[], &[LocalId(2)]),
        mk_summary(arena, true, ExprClass::PureNoTrap, ExprClass::PureNoTrap, &[], &[LocalId(3)], &[]),
    ].into_boxed_slice());
    mark_component_unavailable(&[FunctionId(0), FunctionId(1)], summaries);
    let mut i = 0;
    while i < 2 {
        let s = &summaries[i];
        assert!(!s.available && s.transitive_class == ExprClass::Impure, "post: member is unavailable and Impure (nothing that calls it can be pruned)");
        assert!(s.transitive_callees.is_empty() && s.transitive_capture_reads.is_empty() && s.transitive_capture_writes.is_empty(), "post: transitive sets cleared");
        i += 1;
    }
    assert!(summaries[2].available && summaries[2].transitive_capture_reads.len() == 1, "frame: functions outside the component untouched");
    kani::cover!(true, "cover: component marked");
}

// SummaryBudget::note_event: fails exactly when nothing remains, otherwise consumes one unit (monotone)
// @harness property=C03,C18 fn=SummaryBudget::note_event kind=proof tier=quick cfg=release domain="loop-free; every u64 remaining"
#[kani::proof]
fn summary_budget__contract() {
    let n: u64 = kani::any();
    let mut b = SummaryBudget::new(n);
    let r = b.note_event();
    assert!(r.is_err() == (n == 0), "post: Err iff the budget was exhausted");
    assert!(b.remaining_events == if n == 0 { 0 } else { n - 1 }, "post: one unit consumed, never wraps");
    kani::cover!(n == 0, "cover: exhausted");
    kani::cover!(n == 1, "cover: last unit");
}
