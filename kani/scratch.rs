// @inject src/arena/scratch.rs
// @needs bump.rs
// Contracts for src/arena/scratch.rs (properties C11 and C14): the two global scratch arenas.
// release-cfg: `Arena` is bump::Arena and ScratchArena holds `&Arena` (the shipped configuration).
#![cfg(not(debug_assertions))] // release-cfg only: in debug builds `Arena` is the debug wrapper enum
#![allow(non_snake_case, unused_imports, dead_code, static_mut_refs, clippy::all)]

use super::*;
use crate::arena::verif_bump as bk;
use std::alloc::{Allocator, Layout};

fn any_state(chunks: usize) -> (usize, usize) {
    let commit: usize = kani::any();
    let offset: usize = kani::any();
    kani::assume(commit % bk::CHUNK == 0 && commit <= chunks * bk::CHUNK && offset <= commit);
    (offset, commit)
}

unsafe fn install_scratch() {
    let (o0, c0) = any_state(1);
    let (o1, c1) = any_state(1);
    unsafe {
        std::ptr::write(&raw mut S_SCRATCH[0], bk::arena_value(1, o0, c0));
        std::ptr::write(&raw mut S_SCRATCH[1], bk::arena_value(1, o1, c1));
    }
}

// =====================================================================================================
// opt_ptr_eq(a, b)  <=>  (a, b both None) or (both Some and the same object)
// =====================================================================================================
// @harness property=C11,C14 fn=scratch::opt_ptr_eq kind=proof tier=quick cfg=release domain="loop-free; a, b in {None, Some(&x), Some(&y)}"
#[kani::proof]
fn opt_ptr_eq__contract() {
    let x = bk::mk_arena(1);
    let y = bk::mk_arena(1);
    let sa: u8 = kani::any();
    let sb: u8 = kani::any();
    kani::assume(sa < 3 && sb < 3);
    let pick = |s: u8| -> Option<&bump::Arena> {
        match s {
            0 => None,
            1 => Some(x),
            _ => Some(y),
        }
    };
    assert!(opt_ptr_eq(pick(sa), pick(sb)) == (sa == sb), "post: opt_ptr_eq is identity of the referenced object");
    kani::cover!(sa == sb && sa > 0, "cover: same object");
    kani::cover!(sa != sb && sa > 0 && sb > 0, "cover: different objects");
    kani::cover!(sa == 0 && sb == 0, "cover: both none");
}

// =====================================================================================================
// scratch_arena(conflict)   ensures the returned arena is S[1] iff conflict is S[0], otherwise S[0];
//                           it is never the conflict; its saved mark is the arena's current offset
// =====================================================================================================
// @harness property=C11,C14 fn=scratch::scratch_arena kind=proof tier=quick cfg=release domain="loop-free; conflict in {None, S[0], S[1], unrelated arena}; arbitrary wf states of S[0], S[1]"
#[kani::proof]
#[kani::stub(<crate::sys::unix::UnixVirtualMemory as crate::sys::VirtualMemory>::decommit, bk::vm_decommit_nop)]
fn scratch_arena__contract() {
    unsafe { install_scratch() };
    let other = bk::mk_arena(1);
    let sel: u8 = kani::any();
    kani::assume(sel < 4);
    let conflict: Option<&Arena> = unsafe {
        match sel {
            0 => None,
            1 => Some(&S_SCRATCH[0]),
            2 => Some(&S_SCRATCH[1]),
            _ => Some(other),
        }
    };
    let s = scratch_arena(conflict);
    let got: &Arena = &s;
    let (p0, p1) = unsafe { (&raw const S_SCRATCH[0], &raw const S_SCRATCH[1]) };
    let gp = got as *const Arena;
    assert!(gp == p0 || gp == p1, "post: result is one of the two global scratch arenas");
    assert!((gp == p1) == (sel == 1), "post: S[1] iff the conflict is S[0]");
    if let Some(c) = conflict {
        assert!(gp != c as *const Arena, "post: never the conflicting arena");
    }
    assert!(s.offset == got.offset(), "post: saved mark == offset at creation");
    kani::cover!(sel == 1, "cover: conflict S[0]");
    kani::cover!(sel == 2, "cover: conflict S[1]");
    kani::cover!(sel == 3, "cover: unrelated conflict");
    std::mem::forget(s);
}

// =====================================================================================================
// ScratchArena::new / Drop    drop restores the offset seen at creation and decommits above it;
//                             nested borrows of the same arena restore in LIFO order
// =====================================================================================================
// @harness property=C11,C14 fn=ScratchArena::new+Drop::drop kind=proof tier=quick cfg=release domain="loop-free; arbitrary wf state of a 1-chunk arena; two nested borrows, one allocation of any size <= 4096 in each"
#[kani::proof]
#[kani::stub(<crate::sys::unix::UnixVirtualMemory as crate::sys::VirtualMemory>::commit, bk::vm_commit_any)]
#[kani::stub(<crate::sys::unix::UnixVirtualMemory as crate::sys::VirtualMemory>::decommit, bk::vm_decommit_nop)]
fn scratch_drop__restores_mark_lifo() {
    let a = bk::mk_arena(1);
    let (o0, c0) = any_state(1);
    bk::set_state(a, o0, c0);
    let n1: usize = kani::any();
    let n2: usize = kani::any();
    kani::assume(n1 <= 4096 && n2 <= 4096);
    {
        let s1 = ScratchArena::new(a);
        let _ = s1.allocate(Layout::from_size_align(n1, 1).unwrap());
        let mid = a.offset();
        {
            let s2 = ScratchArena::new(a);
            let _ = s2.allocate(Layout::from_size_align(n2, 8).unwrap());
            kani::cover!(a.offset() > mid, "cover: inner borrow allocated");
        }
        assert!(a.offset() == mid, "post: inner drop restores the inner mark (outer allocations survive)");
        assert!(bk::commit_of(a) >= mid && bk::commit_of(a) % bk::CHUNK == 0, "post: inner drop keeps everything below the mark committed");
    }
    assert!(a.offset() == o0, "post: outer drop restores the offset seen at creation");
    let keep = (o0 + bk::CHUNK - 1) / bk::CHUNK * bk::CHUNK;
    assert!(bk::commit_of(a) == if keep < c0 { keep } else { c0 } || bk::commit_of(a) == keep, "post: decommitted down to roundup(mark), never below");
    assert!(bk::commit_of(a) >= o0, "post: live data below the mark stays committed");
    kani::cover!(true, "cover: both drops ran");
}

// =====================================================================================================
// init(capacity)   ensures Ok => both scratch arenas are non-empty and have offset == 0 (history independence
//                  at the allocator: a re-initialised process starts every script from the same arena state)
// =====================================================================================================
fn vm_reserve_any(size: usize) -> Result<std::ptr::NonNull<u8>, u32> {
    if kani::any() {
        Ok(std::ptr::NonNull::new(bk::base_of(bk::mk_arena(1))).unwrap())
    } else {
        Err(12)
    }
}

// @harness property=C14,C11 fn=scratch::init kind=proof tier=quick cfg=release domain="each of S[0], S[1] either empty or in an arbitrary wf state; capacity <= 64 KiB; reserve may fail"
#[kani::proof]
#[kani::unwind(3)]
#[kani::stub(<crate::sys::unix::UnixVirtualMemory as crate::sys::VirtualMemory>::reserve, vm_reserve_any)]
#[kani::stub(<crate::sys::unix::UnixVirtualMemory as crate::sys::VirtualMemory>::release, bk::vm_release_nop)]
fn init__contract() {
    let e0: bool = kani::any();
    let e1: bool = kani::any();
    unsafe {
        install_scratch();
        if e0 {
            std::ptr::write(&raw mut S_SCRATCH[0], bump::Arena::empty());
        }
        if e1 {
            std::ptr::write(&raw mut S_SCRATCH[1], bump::Arena::empty());
        }
    }
    let capacity: usize = kani::any();
    kani::assume(capacity >= 1 && capacity <= bk::CHUNK);
    let r = init(capacity);
    unsafe {
        if r.is_ok() {
            assert!(!S_SCRATCH[0].is_empty() && !S_SCRATCH[1].is_empty(), "post ok: both arenas reserved");
            assert!(S_SCRATCH[0].offset() == 0 && S_SCRATCH[1].offset() == 0, "post ok: both arenas start at offset 0");
            assert!(bk::wf(&S_SCRATCH[0]) && bk::wf(&S_SCRATCH[1]), "post ok: both arenas well-formed");
            kani::cover!(!e0 && !e1, "cover: re-initialisation of used arenas");
            kani::cover!(e0 && e1, "cover: first initialisation");
        } else {
            kani::cover!(true, "cover: reserve failed");
        }
    }
}
