// @inject src/analysis/limits.rs
// @needs bump.rs
// Contracts for src/analysis/limits.rs (property C18): the preflight gate that decides whether the analyses run.
// release-cfg: ProgramFacts / ProgramCounts hold Vec<_, &Arena>.
#![cfg(not(debug_assertions))]
#![allow(non_snake_case, unused_imports, dead_code, clippy::all)]

use super::*;
use crate::analysis::facts::FunctionInfo;
use crate::analysis::ids::{FunctionId, ScopeId};
use crate::arena::verif_bump as bk;
use crate::arena::Arena;
use crate::syntax::parser::Block;
use std::range::Range;

static EMPTY_BLOCK: Block<'static> = Block { stmts: &[], span: Range { start: 0, end: 0 } };

/// A Vec whose LENGTH is arbitrary and whose storage is never touched (first_exceeded_limit only calls .len() on it).
fn len_only<T>(arena: &'static Arena, max: usize) -> (Vec<T, &'static Arena>, usize) {
    let n: usize = kani::any();
    kani::assume(n <= max);
    (unsafe { Vec::from_raw_parts_in(std::ptr::NonNull::<T>::dangling().as_ptr(), n, n, arena) }, n)
}

fn any_function(locals_cap: u32) -> FunctionInfo<'static> {
    let locals_start: u32 = kani::any();
    let locals_len: u32 = kani::any();
    kani::assume(locals_start <= locals_cap && locals_len <= locals_cap);
    FunctionInfo {
        name: "f",
        params: None,
        parent: None,
        defining_scope: ScopeId(0),
        def_span: Range { start: 0, end: 0 },
        body_span: Range { start: 0, end: 0 },
        body: &EMPTY_BLOCK,
        def_stmt: None,
        locals_start,
        locals_len,
    }
}

const BIG: usize = 1 << 40; // far above every default cap; Vec lengths are bounded by isize::MAX / size_of::<T>() anyway

// first_exceeded_limit(facts, counts, caps)
//   ensures  None  <=> every one of the eleven metrics is <= its cap;
//            Some(l) => l names the FIRST exceeded metric in the staged order
//                       functions, locals, scopes, statements, cfg ops, ops in one function, cfg blocks,
//                       blocks in one function, direct user calls, summary events, liveness events
//                       and l.observed / l.limit are exactly that metric's value and cap
//   for ALL cap values and all sizes (so "just below / at / just above" every default cap is an instance)
// The two derived-work metrics are used through their CONTRACT (any u64; their own contracts are below): a 64-bit multiply
// inside an 11-stage comparison chain does not terminate in CBMC.
static mut SUMMARY_EVENTS: u64 = 0;
static mut LIVENESS_EVENTS: u64 = 0;
fn summary_event_bound__stub(_facts: &ProgramFacts<'_, '_>) -> u64 {
    let v: u64 = kani::any();
    unsafe { SUMMARY_EVENTS = v };
    v
}
fn liveness_event_bound__stub(_facts: &ProgramFacts<'_, '_>, _counts: &ProgramCounts<'_>) -> u64 {
    let v: u64 = kani::any();
    unsafe { LIVENESS_EVENTS = v };
    v
}

// @harness property=C18 fn=limits::first_exceeded_limit kind=proof tier=quick cfg=release timeout=900 domain="every AnalysisCaps value; every length <= 2^40 of functions(len-only variant)/locals/scopes/statements/user_calls; every u32 total_ops/total_blocks; per-function vectors of 0..=2 entries with arbitrary u32 contents (iterator loops fully unwound); summary/liveness event bounds through their contracts (any u64)"
#[kani::proof]
#[kani::unwind(13)]
#[kani::stub(<crate::sys::unix::UnixVirtualMemory as crate::sys::VirtualMemory>::commit, bk::vm_commit_ok)]
#[kani::stub(summary_event_bound, summary_event_bound__stub)]
#[kani::stub(liveness_event_bound, liveness_event_bound__stub)]
fn first_exceeded_limit__contract() {
    let arena = bk::mk_arena(1);
    let mut facts = ProgramFacts::new(arena);
    // every fact table is length-only: with the two derived bounds stubbed nothing dereferences them
    let (functions, nf) = len_only(arena, BIG);
    facts.functions = functions;
    let (locals, n_locals) = len_only(arena, BIG);
    facts.locals = locals;
    let (scopes, n_scopes) = len_only(arena, BIG);
    facts.scopes = scopes;
    let (stmts, n_stmts) = len_only(arena, BIG);
    facts.stmt_effects = stmts;
    let (calls, n_calls) = len_only(arena, BIG);
    facts.user_calls = calls;

    // per-function count vectors: 0..=2 entries with arbitrary contents, laid over leaked arrays (no allocator calls)
    let nb: usize = kani::any();
    let no: usize = kani::any();
    kani::assume(nb <= 2 && no <= 2);
    let fb: [u32; 2] = kani::any();
    let fo: [u32; 2] = kani::any();
    let fbp: &'static mut [u32; 2] = Box::leak(Box::new(fb));
    let fop: &'static mut [u32; 2] = Box::leak(Box::new(fo));
    let counts = ProgramCounts {
        function_blocks: unsafe { Vec::from_raw_parts_in(fbp.as_mut_ptr(), nb, 2, arena) },
        function_ops: unsafe { Vec::from_raw_parts_in(fop.as_mut_ptr(), no, 2, arena) },
        total_blocks: kani::any(),
        total_ops: kani::any(),
        total_statements: kani::any(),
    };

    let caps = AnalysisCaps {
        max_functions: kani::any(),
        max_locals: kani::any(),
        max_scopes: kani::any(),
        max_statements: kani::any(),
        max_total_ops: kani::any(),
        max_ops_per_function: kani::any(),
        max_total_blocks: kani::any(),
        max_blocks_per_function: kani::any(),
        max_direct_user_calls: kani::any(),
        max_summary_events: kani::any(),
        max_liveness_events: kani::any(),
    };

    let r = first_exceeded_limit(&facts, &counts, caps);

    // the eleven metrics in the staged order (observed, cap), written from the property statement
    let max_ops = if no == 0 { None } else if no == 1 || fo[0] >= fo[1] { Some(fo[0] as u64) } else { Some(fo[1] as u64) };
    let max_blocks = if nb == 0 { None } else if nb == 1 || fb[0] >= fb[1] { Some(fb[0] as u64) } else { Some(fb[1] as u64) };
    let stages: [(Option<u64>, u64); 11] = [
        (Some(nf as u64), caps.max_functions as u64),
        (Some(n_locals as u64), caps.max_locals as u64),
        (Some(n_scopes as u64), caps.max_scopes as u64),
        (Some(n_stmts as u64), caps.max_statements as u64),
        (Some(counts.total_ops as u64), caps.max_total_ops as u64),
        (max_ops, caps.max_ops_per_function as u64),
        (Some(counts.total_blocks as u64), caps.max_total_blocks as u64),
        (max_blocks, caps.max_blocks_per_function as u64),
        (Some(n_calls as u64), caps.max_direct_user_calls as u64),
        (Some(unsafe { SUMMARY_EVENTS }), caps.max_summary_events),
        (Some(unsafe { LIVENESS_EVENTS }), caps.max_liveness_events),
    ];
    let names = ["functions", "locals", "scopes", "statements", "cfg ops", "ops in one function", "cfg blocks",
                 "blocks in one function", "direct user calls", "summary events", "liveness events"];
    let mut first: usize = 11;
    let mut k = 11;
    while k > 0 {
        k -= 1;
        if let (Some(obs), cap) = stages[k] {
            if obs > cap {
                first = k;
            }
        }
    }
    match r {
        None => assert!(first == 11, "post none: None only when every metric is within its cap"),
        Some(l) => {
            assert!(first < 11, "post some: Some only when a metric exceeds its cap");
            if first < 11 {
                assert!(l.observed == stages[first].0.unwrap() && l.limit == stages[first].1, "post some: observed/limit are exactly the first exceeded metric's value and cap (staged order)");
                assert!(l.observed > l.limit, "post some: the reported metric really exceeds its cap");
                assert!(std::ptr::eq(l.metric.as_ptr(), names[first].as_ptr()) || l.metric.len() == names[first].len(), "post some: metric name of the first exceeded stage");
            }
        }
    }
    kani::cover!(first == 11, "cover: all within caps");
    kani::cover!(first == 0, "cover: functions");
    kani::cover!(first == 3, "cover: statements");
    kani::cover!(first == 5, "cover: ops in one function");
    kani::cover!(first == 7, "cover: blocks in one function");
    kani::cover!(first == 9, "cover: summary events");
    kani::cover!(first == 10, "cover: liveness events");
    kani::cover!(first == 3 && n_stmts as u64 == caps.max_statements as u64 + 1, "cover: just above a cap");
    kani::cover!(first == 11 && n_stmts as u64 == caps.max_statements as u64, "cover: exactly at a cap");
    std::mem::forget(facts);
    std::mem::forget(counts);
}

// summary_event_bound / liveness_event_bound: never overflow (saturating), and monotone in the sizes
// @harness property=C18 fn=limits::summary_event_bound kind=proof tier=quick cfg=release timeout=900 domain="loop-free; every functions length <= 2^17 and locals length <= 2^18 (8x / 2x the default caps; a 64-bit multiply of two wider symbolic operands takes CBMC > 7 min), plus one saturating instance (2^40, 2^40)"
#[kani::proof]
fn summary_event_bound__contract() {
    let arena = bk::mk_arena(1);
    let mut facts = ProgramFacts::new(arena);
    let huge: bool = kani::any();
    let (f, nf) = len_only(arena, BIG);
    facts.functions = f;
    let (l, nl) = len_only(arena, BIG);
    facts.locals = l;
    kani::assume(if huge { nf == BIG && nl == BIG } else { nf <= (1 << 17) && nl <= (1 << 18) });
    let b = summary_event_bound(&facts);
    let inner = nf as u64 + 2 * nl as u64 + 2; // < 2^42: cannot overflow
    match (nf as u64).checked_mul(inner) {
        Some(exact) => assert!(b == exact, "post: == f * (f + 2*l + 2) when that fits u64"),
        None => assert!(b == u64::MAX, "post: saturates at u64::MAX, no wrap-around"),
    }
    assert!(b >= nf as u64 && (nf == 0 || b >= nl as u64), "post: monotone lower bounds");
    kani::cover!((nf as u64).checked_mul(inner).is_none(), "cover: saturated");
    kani::cover!((nf as u64).checked_mul(inner).is_some() && nf > 0, "cover: exact");
    std::mem::forget(facts);
}

// DEFAULT_CAPS sanity: every cap is positive and the derived-work caps dominate the size caps they are derived from
// @harness property=C18 fn=limits::DEFAULT_CAPS kind=proof tier=quick cfg=release domain="constant table"
#[kani::proof]
fn default_caps__sane() {
    let c = DEFAULT_CAPS;
    assert!(c.max_functions > 0 && c.max_locals > 0 && c.max_scopes > 0 && c.max_statements > 0 && c.max_total_ops > 0
        && c.max_ops_per_function > 0 && c.max_total_blocks > 0 && c.max_blocks_per_function > 0 && c.max_direct_user_calls > 0
        && c.max_summary_events > 0 && c.max_liveness_events > 0, "caps: every default cap is positive");
    assert!(c.max_ops_per_function <= c.max_total_ops && c.max_blocks_per_function <= c.max_total_blocks, "caps: per-function caps do not exceed the totals");
    assert!(c.max_total_ops >= c.max_statements, "caps: one op per statement fits");
    kani::cover!(true, "cover: table read");
}

// liveness_event_bound: sum over functions of (2*blocks + ops) * local_count, saturating, never wraps
fn concrete_function(locals_start: u32, locals_len: u32) -> FunctionInfo<'static> {
    FunctionInfo {
        name: "f",
        params: None,
        parent: None,
        defining_scope: ScopeId(0),
        def_span: Range { start: 0, end: 0 },
        body_span: Range { start: 0, end: 0 },
        body: &EMPTY_BLOCK,
        def_stmt: None,
        locals_start,
        locals_len,
    }
}

// @harness property=C18 fn=limits::liveness_event_bound kind=bounded tier=quick cfg=release timeout=600 domain="bounded: concrete enumeration of 4 instances (0, 1, 2 functions; one saturating) with symbolic choice among them"
#[kani::proof]
#[kani::unwind(4)]
fn liveness_event_bound__contract() {
    let arena = bk::mk_arena(1);
    let mut facts = ProgramFacts::new(arena);
    let which: u8 = kani::any();
    kani::assume(which < 4);
    // (functions, blocks, ops, expected)
    let (n, fs, bs, os, expect): (usize, [FunctionInfo<'static>; 2], [u32; 2], [u32; 2], u64) = match which {
        0 => (0, [concrete_function(0, 0), concrete_function(0, 0)], [0, 0], [0, 0], 0),
        1 => (1, [concrete_function(0, 3), concrete_function(0, 0)], [4, 0], [7, 0], (2 * 4 + 7) * 3),
        2 => (2, [concrete_function(0, 70), concrete_function(2, 5)], [10, 3], [100, 9], (2 * 10 + 100) * 70 + (2 * 3 + 9) * 5),
        _ => (2, [concrete_function(0, u32::MAX), concrete_function(0, u32::MAX)], [u32::MAX, u32::MAX], [u32::MAX, u32::MAX], u64::MAX),
    };
    let fsp: &'static mut [FunctionInfo<'static>; 2] = Box::leak(Box::new(fs));
    let bsp: &'static mut [u32; 2] = Box::leak(Box::new(bs));
    let osp: &'static mut [u32; 2] = Box::leak(Box::new(os));
    facts.functions = unsafe { Vec::from_raw_parts_in(fsp.as_mut_ptr(), n, 2, arena) };
    let counts = ProgramCounts {
        function_blocks: unsafe { Vec::from_raw_parts_in(bsp.as_mut_ptr(), n, 2, arena) },
        function_ops: unsafe { Vec::from_raw_parts_in(osp.as_mut_ptr(), n, 2, arena) },
        total_blocks: 0,
        total_ops: 0,
        total_statements: 0,
    };
    let r = liveness_event_bound(&facts, &counts);
    assert!(r == expect, "post: == saturating sum of (2*blocks + ops) * local-range length over the functions");
    kani::cover!(which == 2, "cover: two functions");
    kani::cover!(which == 3, "cover: saturating");
    std::mem::forget(facts);
    std::mem::forget(counts);
}
