// @inject src/builtins/string.rs
// @needs bump.rs
// Contracts for src/builtins/string.rs, replace.rs, array.rs::join (property C13).
// release-cfg: the functions take `&Arena`, which in debug builds is the debug wrapper enum.
#![cfg(not(debug_assertions))]
#![allow(non_snake_case, unused_imports, dead_code, clippy::all)]

use super::*;
use crate::arena::bump::verif_kani as bk;
use crate::arena::ArenaString;

// The subject string: 4 characters of 1, 2, 4 and 1 bytes.  byte offset of character k:
const SUBJECT: &str = "a\u{e9}\u{1F600}b";
const OFFS: [usize; 5] = [0, 1, 3, 7, 8];
const NCHARS: i64 = 4;

/// The property statement for one bound: floor, negative counts from the end, clamp to 0..=len; NaN -> 0.
/// Written with comparisons only (no float->int cast), so it does not share the implementation's arithmetic.
fn norm_bound(x: f64) -> usize {
    if x.is_nan() {
        0
    } else if x >= 0.0 {
        if x >= 4.0 { 4 } else if x >= 3.0 { 3 } else if x >= 2.0 { 2 } else if x >= 1.0 { 1 } else { 0 }
    } else {
        // floor(x) + 4, clamped at 0
        if x >= -1.0 { 3 } else if x >= -2.0 { 2 } else if x >= -3.0 { 1 } else { 0 }
    }
}

// StringBuiltin::slice(s, start, end)
//   ensures result == the characters of s at positions [start', end') where each bound is floored, counted from the end
//           when negative and clamped to 0..=char_count; empty when start' >= end'; never panics, for EVERY pair of f64
// @harness property=C13,C06 fn=StringBuiltin::slice kind=proof tier=quick cfg=release timeout=900 domain="every pair of f64 bounds (NaN, +-inf, huge, fractional, negative); subject fixed to a 4-character string with 1-, 2- and 4-byte characters (the index arithmetic does not depend on the content)"
#[kani::proof]
#[kani::unwind(10)]
#[kani::stub(<crate::sys::unix::UnixVirtualMemory as crate::sys::VirtualMemory>::commit, bk::vm_commit_ok)]
fn slice__contract() {
    let arena = bk::mk_arena(1);
    let start: f64 = kani::any();
    let end: f64 = kani::any();
    let r = StringBuiltin::slice(SUBJECT, start, end, arena);
    let (a, b) = (norm_bound(start), norm_bound(end));
    let expect: &str = if a < b { &SUBJECT[OFFS[a]..OFFS[b]] } else { "" };
    assert!(r.len() == expect.len(), "post: selects exactly the characters [start', end') (length)");
    let q: usize = kani::any();
    if q < expect.len() {
        assert!(r.as_bytes()[q] == expect.as_bytes()[q], "post: selects exactly the characters [start', end') (bytes)");
    }
    kani::cover!(start.is_nan(), "cover: NaN bound");
    kani::cover!(start < 0.0 && a == 3, "cover: negative bound counted from the end");
    kani::cover!(end > 1.0e300, "cover: huge bound clamped");
    kani::cover!(a == 1 && b == 3, "cover: multi-byte interior slice");
    kani::cover!(start.is_infinite() && start < 0.0, "cover: -inf");
    kani::cover!(start.fract() != 0.0 && start > 1.0 && start < 2.0, "cover: fractional bound floored");
}

fn any_char3() -> char {
    let k: u8 = kani::any();
    kani::assume(k < 3);
    match k {
        0 => 'a',
        1 => '\u{e9}',
        _ => '\u{1F600}',
    }
}

/// Up to 3 characters from {a, e-acute, grinning face}, written into `buf`; returns the str.
fn any_str3(buf: &mut [u8; 12]) -> &str {
    let n: usize = kani::any();
    kani::assume(n <= 3);
    let mut len = 0;
    let mut i = 0;
    while i < 3 {
        if i < n {
            let c = any_char3();
            len += c.encode_utf8(&mut buf[len..]).len();
        }
        i += 1;
    }
    unsafe { std::str::from_utf8_unchecked(&buf[..len]) }
}

// StringBuiltin::len counts characters
// @harness property=C13 fn=StringBuiltin::len kind=bounded tier=quick cfg=release timeout=900 domain="bounded: every string of 0..=3 characters from {1-byte, 2-byte, 4-byte}"
#[kani::proof]
#[kani::unwind(14)]
fn len__counts_characters() {
    let mut buf = [0u8; 12];
    let n: usize = kani::any();
    kani::assume(n <= 3);
    let mut len = 0;
    let mut i = 0;
    while i < 3 {
        if i < n {
            let c = any_char3();
            len += c.encode_utf8(&mut buf[len..]).len();
        }
        i += 1;
    }
    let s = unsafe { std::str::from_utf8_unchecked(&buf[..len]) };
    assert!(StringBuiltin::len(s) == n as f64, "post: len == number of characters, not bytes");
    kani::cover!(n == 3 && len == 12, "cover: three 4-byte characters");
    kani::cover!(n == 0, "cover: empty");
}

// replace with an EMPTY pattern inserts `to` before every character and once at the end (std semantics)
// @harness property=C13 fn=builtins::replace::replace(empty-pattern) kind=bounded tier=quick cfg=release timeout=900 domain="bounded: haystack of 0..=2 characters from {1-byte, 2-byte, 4-byte}; replacement fixed to \"-\""
#[kani::proof]
#[kani::unwind(14)]
#[kani::stub(<crate::sys::unix::UnixVirtualMemory as crate::sys::VirtualMemory>::commit, bk::vm_commit_ok)]
fn replace__empty_pattern() {
    let arena = bk::mk_arena(1);
    let mut buf = [0u8; 8];
    let n: usize = kani::any();
    kani::assume(n <= 2);
    let c0 = any_char3();
    let c1 = any_char3();
    let mut len = 0;
    if n >= 1 {
        len += c0.encode_utf8(&mut buf[len..]).len();
    }
    if n >= 2 {
        len += c1.encode_utf8(&mut buf[len..]).len();
    }
    let s = unsafe { std::str::from_utf8_unchecked(&buf[..len]) };
    let r = crate::builtins::replace(arena, s, "", "-");
    // expected: "-" c0 "-" c1 "-"   (n+1 dashes, characters in order)
    assert!(r.len() == len + n + 1, "post: one replacement before every character and one at the end (length)");
    let rb = r.as_bytes();
    assert!(rb[0] == b'-' && rb[r.len() - 1] == b'-', "post: starts and ends with the replacement");
    if n >= 1 {
        let l0 = c0.len_utf8();
        let mut k = 0;
        while k < 4 {
            if k < l0 {
                assert!(rb[1 + k] == buf[k], "post: first character copied intact");
            }
            k += 1;
        }
        assert!(rb[1 + l0] == b'-', "post: replacement after the first character");
        if n >= 2 {
            let l1 = c1.len_utf8();
            k = 0;
            while k < 4 {
                if k < l1 {
                    assert!(rb[2 + l0 + k] == buf[l0 + k], "post: second character copied intact");
                }
                k += 1;
            }
        }
    }
    kani::cover!(n == 2 && len == 8, "cover: two 4-byte characters");
    kani::cover!(n == 0, "cover: empty haystack");
    kani::cover!(n == 2 && c1.len_utf8() == 2, "cover: ends in a multi-byte character");
}
