// @inject src/builtins/string.rs
// @needs bump.rs
// Contracts for src/builtins/string.rs, replace.rs, array.rs::join (property C13).
// release-cfg: the functions take `&Arena`, which in debug builds is the debug wrapper enum.
#![cfg(not(debug_assertions))]
#![allow(non_snake_case, unused_imports, dead_code, clippy::all)]

use super::*;
use crate::arena::verif_bump as bk;
use crate::arena::ArenaString;

// The subject string: 4 characters of 1, 2, 4 and 1 bytes.  byte offset of character k:
const SUBJECT: &str = "a\u{e9}\u{1F600}b";
const OFFS: [usize; 5] = [0, 1, 3, 7, 8];
const NCHARS: i64 = 4;

/// The property statement for one bound: floor, negative counts from the end, clamp to 0..=len; NaN -> 0.
/// Written with comparisons only (no float->int cast), so it does not share the implementation's arithmetic.
fn norm_bound(x: f64) -> usize {
    if x.is_nan() {
        0
    } else if x >= 0.0 {
        if x >= 4.0 { 4 } else if x >= 3.0 { 3 } else if x >= 2.0 { 2 } else if x >= 1.0 { 1 } else { 0 }
    } else {
        // floor(x) + 4, clamped at 0
        if x >= -1.0 { 3 } else if x >= -2.0 { 2 } else if x >= -3.0 { 1 } else { 0 }
    }
}

// StringBuiltin::slice(s, start, end)
//   ensures result == the characters of s at positions [start', end') where each bound is floored, counted from the end
//           when negative and clamped to 0..=char_count; empty when start' >= end'; never panics
fn check_slice(start: f64, end: f64) {
    let arena = bk::mk_arena(1);
    let r = StringBuiltin::slice(SUBJECT, start, end, arena);
    let (a, b) = (norm_bound(start), norm_bound(end));
    let expect: &str = if a < b { &SUBJECT[OFFS[a]..OFFS[b]] } else { "" };
    assert!(r.len() == expect.len(), "post: selects exactly the characters [start', end') (length)");
    let mut q = 0;
    while q < expect.len() && q < r.len() {
        assert!(r.as_bytes()[q] == expect.as_bytes()[q], "post: selects exactly the characters [start', end') (bytes)");
        q += 1;
    }
}

// A symbolic f64 bound through floor/cast/clamp followed by chars().skip().take() does not terminate in CBMC (> 20 min per
// harness), so the mapping is checked on a concrete table that covers every class the property names: NaN, +-inf, huge,
// fractional, negative (counted from the end), out-of-range (clamped), start >= end, whole string, multi-byte interior.
// @harness property=C13,C06 fn=StringBuiltin::slice kind=bounded tier=quick cfg=release timeout=900 domain="bounded: concrete table of 26 (start, end) pairs on a 4-character subject with 1-, 2- and 4-byte characters; expected result computed by the comparison-only specification norm_bound"
#[kani::proof]
#[kani::unwind(16)]
#[kani::stub(<crate::sys::unix::UnixVirtualMemory as crate::sys::VirtualMemory>::commit, bk::vm_commit_ok)]
fn slice__table() {
    check_slice(0.0, 4.0);
    check_slice(1.0, 3.0);
    check_slice(1.0, 2.0);
    check_slice(2.0, 3.0);
    check_slice(0.0, 0.0);
    check_slice(3.0, 1.0);
    check_slice(-1.0, 4.0);
    check_slice(-1.0, 12.0);
    check_slice(-2.0, -1.0);
    check_slice(0.0, -2.0);
    check_slice(-3.0, 2.0);
    check_slice(-4.0, 1.0);
    check_slice(-5.0, 1.0);
    check_slice(-100.0, 100.0);
    check_slice(1.5, 3.9);
    check_slice(-1.5, 4.0);
    check_slice(0.99, 1.01);
    check_slice(f64::NAN, 2.0);
    check_slice(1.0, f64::NAN);
    check_slice(f64::NEG_INFINITY, f64::INFINITY);
    check_slice(f64::INFINITY, f64::INFINITY);
    check_slice(0.0, 1.0e300);
    check_slice(-1.0e300, 2.0);
    check_slice(1.0e19, 2.0e19);
    check_slice(-9.3e18, 3.0);
    check_slice(2.0, 2.0);
    kani::cover!(true, "cover: table completed");
}

fn any_char3() -> char {
    let k: u8 = kani::any();
    kani::assume(k < 3);
    match k {
        0 => 'a',
        1 => '\u{e9}',
        _ => '\u{1F600}',
    }
}

/// Up to 3 characters from {a, e-acute, grinning face}, written into `buf`; returns the str.
fn any_str3(buf: &mut [u8; 12]) -> &str {
    let n: usize = kani::any();
    kani::assume(n <= 3);
    let mut len = 0;
    let mut i = 0;
    while i < 3 {
        if i < n {
            let c = any_char3();
            len += c.encode_utf8(&mut buf[len..]).len();
        }
        i += 1;
    }
    unsafe { std::str::from_utf8_unchecked(&buf[..len]) }
}

// StringBuiltin::len counts characters (std's word-at-a-time chars().count() does not terminate in CBMC on symbolic
// bytes, so this is a concrete table)
// @harness property=C13 fn=StringBuiltin::len kind=bounded tier=quick cfg=release timeout=600 domain="bounded: 7 concrete strings mixing 1-, 2-, 3- and 4-byte characters"
#[kani::proof]
#[kani::unwind(40)]
fn len__counts_characters() {
    assert!(StringBuiltin::len("") == 0.0, "post: len == number of characters, not bytes");
    assert!(StringBuiltin::len("a") == 1.0, "post: len == number of characters, not bytes");
    assert!(StringBuiltin::len("\u{e9}") == 1.0, "post: len == number of characters, not bytes");
    assert!(StringBuiltin::len("\u{1F600}") == 1.0, "post: len == number of characters, not bytes");
    assert!(StringBuiltin::len("a\u{e9}\u{1F600}b") == 4.0, "post: len == number of characters, not bytes");
    assert!(StringBuiltin::len("\u{4e16}\u{754c}") == 2.0, "post: len == number of characters, not bytes");
    assert!(StringBuiltin::len("Hello, \u{4e16}\u{754c}! \u{1F30E}") == 12.0, "post: len == number of characters, not bytes");
    kani::cover!(true, "cover: table completed");
}

// replace with an EMPTY pattern inserts `to` before every character and once at the end (std semantics)
fn check_empty_pattern(arena: &'static crate::arena::Arena, hay: &str, expect: &str) {
    let r = crate::builtins::replace(arena, hay, "", "-");
    assert!(r.len() == expect.len(), "post: one replacement before every character and one at the end (length)");
    let mut k = 0;
    while k < expect.len() {
        assert!(r.as_bytes()[k] == expect.as_bytes()[k], "post: one replacement before every character and one at the end (bytes)");
        k += 1;
    }
}

// @harness property=C13 fn=builtins::replace::replace(empty-pattern) kind=bounded tier=quick cfg=release timeout=900 domain="bounded: the haystacks \"\", a, a+e-acute, e-acute+a, one 4-byte character, ab; replacement \"-\" (concrete enumeration)"
#[kani::proof]
#[kani::unwind(16)]
#[kani::stub(<crate::sys::unix::UnixVirtualMemory as crate::sys::VirtualMemory>::commit, bk::vm_commit_ok)]
fn replace__empty_pattern() {
    let arena = bk::mk_arena(1);
    let which: u8 = kani::any();
    match which {
        0 => check_empty_pattern(arena, "", "-"),
        1 => check_empty_pattern(arena, "a", "-a-"),
        2 => check_empty_pattern(arena, "a\u{e9}", "-a-\u{e9}-"),
        3 => check_empty_pattern(arena, "\u{e9}a", "-\u{e9}-a-"),
        4 => check_empty_pattern(arena, "\u{1F600}", "-\u{1F600}-"),
        _ => check_empty_pattern(arena, "ab", "-a-b-"),
    }
    kani::cover!(which == 2, "cover: ends in a multi-byte character");
    kani::cover!(which == 0, "cover: empty haystack");
}

// memchr_rs::memchr through its documented contract (the crate dispatches on CPUID, which CBMC cannot execute): the first index >= offset
// holding the byte, or the length.  The same contract is what the Verus units assume (verus/common.py).
fn memchr__contract(needle: u8, haystack: &[u8], offset: usize) -> usize {
    let mut i = offset;
    while i < haystack.len() {
        if haystack[i] == needle {
            return i;
        }
        i += 1;
    }
    haystack.len()
}

// StringBuiltin::find answers in CHARACTERS, the unit `len` and `slice` use (the search itself, in bytes, is V:tw: first occurrence);
// -1 when there is no occurrence.  Concrete table for the same reason as len.
// @harness property=C13 fn=StringBuiltin::find kind=bounded tier=quick cfg=release timeout=900 domain="bounded: 8 concrete (haystack, needle) pairs with 1-, 2-, 3- and 4-byte characters before the match"
#[kani::proof]
#[kani::unwind(40)]
#[kani::stub(memchr_rs::memchr::memchr, memchr__contract)]
fn find__answers_in_characters() {
    assert!(StringBuiltin::find("abc", "c") == 2.0, "post: find == number of characters before the first occurrence");
    assert!(StringBuiltin::find("h\u{e9}llo", "l") == 2.0, "post: find == number of characters before the first occurrence");
    assert!(StringBuiltin::find("\u{65e5}\u{672c}\u{8a9e}", "\u{8a9e}") == 2.0, "post: find == number of characters before the first occurrence");
    assert!(StringBuiltin::find("\u{1F600}x", "x") == 1.0, "post: find == number of characters before the first occurrence");
    assert!(StringBuiltin::find("a\u{e9}\u{1F600}b", "b") == 3.0, "post: find == number of characters before the first occurrence");
    assert!(StringBuiltin::find("\u{e9}", "") == 0.0, "post: find == number of characters before the first occurrence");
    assert!(StringBuiltin::find("abc", "z") == -1.0, "post: -1 when there is no occurrence");
    assert!(StringBuiltin::find("", "a") == -1.0, "post: -1 when there is no occurrence");
    kani::cover!(true, "cover: table completed");
}
