// @inject src/resolver.rs
// @needs bump.rs
// Contracts for src/resolver.rs (properties C18, C09, C04).  release-cfg: the resolver's tables are Vec<_, &Arena>.
#![cfg(not(debug_assertions))]
#![allow(non_snake_case, unused_imports, dead_code, clippy::all)]

use super::*;
use crate::analysis::cfg::{CfgProgram, ProgramCounts};
use crate::analysis::facts::FunctionInfo;
use crate::analysis::ids::ScopeId;
use crate::analysis::limits::{AnalysisCaps, AnalysisLimit};
use crate::analysis::opt::OptimizationPlan;
use crate::arena::verif_bump as bk;
use crate::syntax::parser::Block;
use std::range::Range;

pub(crate) static EMPTY_BLOCK: Block<'static> = Block { stmts: &[], span: Range { start: 0, end: 0 } };

/// A resolver whose facts hold just the synthetic root function (laid over a leaked array: no allocator calls).
pub(crate) fn mk_resolver(arena: &'static Arena) -> Resolver<'static, 'static> {
    let mut r = Resolver::new(arena);
    let root: &'static mut [FunctionInfo<'static>; 1] = Box::leak(Box::new([FunctionInfo {
        name: "<script>",
        params: None,
        parent: None,
        defining_scope: ScopeId(0),
        def_span: Range { start: 0, end: 0 },
        body_span: Range { start: 3, end: 9 },
        body: &EMPTY_BLOCK,
        def_stmt: None,
        locals_start: 0,
        locals_len: 0,
    }]));
    r.facts.functions = unsafe { Vec::from_raw_parts_in(root.as_mut_ptr(), 1, 1, arena) };
    r
}

// ---- callee contracts used by the modular harness below ----
fn count_program__stub<'ast, 'arena>(_facts: &ProgramFacts<'ast, 'ast>, arena: &'arena Arena) -> ProgramCounts<'arena> {
    ProgramCounts {
        function_blocks: Vec::new_in(arena),
        function_ops: Vec::new_in(arena),
        total_blocks: kani::any(),
        total_ops: kani::any(),
        total_statements: kani::any(),
    }
}
// contract of limits::first_exceeded_limit (proved in limits.rs): Some(limit) with observed > limit, or None
fn first_exceeded_limit__some(_f: &ProgramFacts<'_, '_>, _c: &ProgramCounts<'_>, _caps: AnalysisCaps) -> Option<AnalysisLimit> {
    let observed: u64 = kani::any();
    let limit: u64 = kani::any();
    kani::assume(observed > limit);
    Some(AnalysisLimit { metric: "statements", observed, limit })
}
static mut PASS_ENTERED: bool = false;
fn build_program__must_not_run<'ast, 'arena>(_f: &ProgramFacts<'ast, 'ast>, _c: &ProgramCounts<'_>, _a: &'arena Arena) -> CfgProgram<'ast, 'arena> {
    unsafe { PASS_ENTERED = true };
    assert!(false, "post: no analysis pass is entered after a limit hit (cfg::build_program_with_counts reached)");
    loop {}
}
fn fmt_write__stub(_out: &mut dyn std::fmt::Write, _args: std::fmt::Arguments<'_>) -> std::fmt::Result {
    Ok(())
}

// Resolver::emit_analysis_warnings, limit-hit path (checked against the contracts of its callees, not their bodies)
//   ensures exactly ONE diagnostic is added, its severity is Warning (not Error), code "analysis", its span is the root body span;
//           has_errors() is unchanged; optimization_plan == None (so the runtime prunes nothing); no analysis pass is entered
// @harness property=C18 fn=Resolver::emit_analysis_warnings kind=proof tier=quick cfg=release timeout=600 domain="single path through the limit-hit branch for every (observed, limit) pair; callees count_program / first_exceeded_limit / fmt::write replaced by their contracts; pre-existing plan present"
#[kani::proof]
#[kani::unwind(4)]
#[kani::stub(crate::analysis::cfg::count_program, count_program__stub)]
#[kani::stub(crate::analysis::limits::first_exceeded_limit, first_exceeded_limit__some)]
#[kani::stub(crate::analysis::cfg::build_program_with_counts, build_program__must_not_run)]
#[kani::stub(std::fmt::write, fmt_write__stub)]
fn emit_analysis_warnings__limit_hit() {
    let arena = bk::mk_arena(1);
    let mut r = mk_resolver(arena);
    // a stale plan must not survive
    r.optimization_plan = Some(OptimizationPlan { removable_stmts: Vec::new_in(arena), removable_function_defs: Vec::new_in(arena) });
    let n0 = r.errors.diagnostics.len();
    let had_errors = r.errors.has_errors();
    r.emit_analysis_warnings();
    assert!(r.errors.diagnostics.len() == n0 + 1, "post: exactly one diagnostic added");
    let d = &r.errors.diagnostics[n0];
    assert!(d.severity == Severity::Warning, "post: the resource-limit diagnostic is a Warning");
    assert!(d.span.start == 3 && d.span.end == 9, "post: it points at the root body span");
    assert!(r.errors.has_errors() == had_errors && !had_errors, "post: has_errors() unchanged (the program is still accepted)");
    assert!(r.optimization_plan.is_none(), "post: optimization plan is None (nothing will be pruned)");
    assert!(!unsafe { PASS_ENTERED }, "post: no analysis pass entered");
    kani::cover!(true, "cover: limit-hit path completed");
    std::mem::forget(r);
}
