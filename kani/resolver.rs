// @inject src/resolver.rs
// @needs bump.rs
// Contracts for src/resolver.rs (properties C18, C09, C04).  release-cfg: the resolver's tables are Vec<_, &Arena>.
#![cfg(not(debug_assertions))]
#![allow(non_snake_case, unused_imports, dead_code, clippy::all)]

use super::*;
use crate::analysis::cfg::{CfgProgram, ProgramCounts};
use crate::analysis::facts::FunctionInfo;
use crate::analysis::ids::ScopeId;
use crate::analysis::limits::{AnalysisCaps, AnalysisLimit};
use crate::analysis::opt::OptimizationPlan;
use crate::arena::verif_bump as bk;
use crate::syntax::parser::Block;
use std::range::Range;

pub(crate) static EMPTY_BLOCK: Block<'static> = Block { stmts: &[], span: Range { start: 0, end: 0 } };

/// A resolver whose facts hold just the synthetic root function (laid over a leaked array: no allocator calls).
pub(crate) fn mk_resolver(arena: &'static Arena) -> Resolver<'static, 'static> {
    let mut r = Resolver::new(arena);
    let root: &'static mut [FunctionInfo<'static>; 1] = Box::leak(Box::new([FunctionInfo {
        name: "<script>",
        params: None,
        parent: None,
        defining_scope: ScopeId(0),
        def_span: Range { start: 0, end: 0 },
        body_span: Range { start: 3, end: 9 },
        body: &EMPTY_BLOCK,
        def_stmt: None,
        locals_start: 0,
        locals_len: 0,
    }]));
    r.facts.functions = unsafe { Vec::from_raw_parts_in(root.as_mut_ptr(), 1, 1, arena) };
    r
}

// ---- callee contracts used by the modular harness below ----
fn count_program__stub<'ast, 'arena>(_facts: &ProgramFacts<'ast, 'ast>, arena: &'arena Arena) -> ProgramCounts<'arena> {
    ProgramCounts {
        function_blocks: Vec::new_in(arena),
        function_ops: Vec::new_in(arena),
        total_blocks: kani::any(),
        total_ops: kani::any(),
        total_statements: kani::any(),
    }
}
// contract of limits::first_exceeded_limit (proved in limits.rs): Some(limit) with observed > limit, or None
fn first_exceeded_limit__some(_f: &ProgramFacts<'_, '_>, _c: &ProgramCounts<'_>, _caps: AnalysisCaps) -> Option<AnalysisLimit> {
    let observed: u64 = kani::any();
    let limit: u64 = kani::any();
    kani::assume(observed > limit);
    Some(AnalysisLimit { metric: "statements", observed, limit })
}
static mut PASS_ENTERED: bool = false;
fn build_program__must_not_run<'ast, 'arena>(_f: &ProgramFacts<'ast, 'ast>, _c: &ProgramCounts<'_>, _a: &'arena Arena) -> CfgProgram<'ast, 'arena> {
    unsafe { PASS_ENTERED = true };
    assert!(false, "post: no analysis pass is entered after a limit hit (cfg::build_program_with_counts reached)");
    loop {}
}
fn fmt_write__stub(_out: &mut dyn std::fmt::Write, _args: std::fmt::Arguments<'_>) -> std::fmt::Result {
    Ok(())
}

// Resolver::emit_analysis_warnings, limit-hit path (checked against the contracts of its callees, not their bodies)
//   ensures exactly ONE diagnostic is added, its severity is Warning (not Error), code "analysis", its span is the root body span;
//           has_errors() is unchanged; optimization_plan == None (so the runtime prunes nothing); no analysis pass is entered
// @harness property=C18 fn=Resolver::emit_analysis_warnings kind=proof tier=quick cfg=release timeout=600 domain="single path through the limit-hit branch for every (observed, limit) pair; callees count_program / first_exceeded_limit / fmt::write replaced by their contracts; pre-existing plan present"
#[kani::proof]
#[kani::unwind(4)]
#[kani::stub(crate::analysis::cfg::count_program, count_program__stub)]
#[kani::stub(crate::analysis::limits::first_exceeded_limit, first_exceeded_limit__some)]
#[kani::stub(crate::analysis::cfg::build_program_with_counts, build_program__must_not_run)]
#[kani::stub(std::fmt::write, fmt_write__stub)]
fn emit_analysis_warnings__limit_hit() {
    let arena = bk::mk_arena(1);
    let mut r = mk_resolver(arena);
    // a stale plan must not survive
    r.optimization_plan = Some(OptimizationPlan { removable_stmts: Vec::new_in(arena), removable_function_defs: Vec::new_in(arena) });
    let n0 = r.errors.diagnostics.len();
    let had_errors = r.errors.has_errors();
    r.emit_analysis_warnings();
    assert!(r.errors.diagnostics.len() == n0 + 1, "post: exactly one diagnostic added");
    let d = &r.errors.diagnostics[n0];
    assert!(d.severity == Severity::Warning, "post: the resource-limit diagnostic is a Warning");
    assert!(d.span.start == 3 && d.span.end == 9, "post: it points at the root body span");
    assert!(r.errors.has_errors() == had_errors && !had_errors, "post: has_errors() unchanged (the program is still accepted)");
    assert!(r.optimization_plan.is_none(), "post: optimization plan is None (nothing will be pruned)");
    assert!(!unsafe { PASS_ENTERED }, "post: no analysis pass entered");
    kani::cover!(true, "cover: limit-hit path completed");
    std::mem::forget(r);
}

// =====================================================================================================
// C09: static rules.  The resolver is run on hand-built ASTs (arena-free: static nodes); the analysis passes after
// resolution are cut (stub of emit_analysis_warnings: they emit warnings only, never errors).
// =====================================================================================================
use crate::syntax::parser::{ArgList, BinaryOp, Expr, ParamList, Stmt, StringParts, UnaryOp};

const SP0: Span = Range { start: 0, end: 0 };
// std's per-process random SipHash keys come from getrandom(2) (foreign): fixed keys instead (HashSet semantics do not depend on them)
fn random_state__fixed() -> std::hash::RandomState {
    unsafe { std::mem::transmute::<(u64, u64), std::hash::RandomState>((0x0123_4567_89ab_cdef, 0x0fed_cba9_8765_4321)) }
}
fn emit_analysis_warnings__cut<'ast, 'res>(_r: &mut Resolver<'ast, 'res>)
where
    'ast: 'ast,
    'res: 'res,
{
}

// Contract of predeclare_block_functions used by the context-rule harnesses: every FunctionDef of the block is registered in
// the facts and in the innermost function scope (the duplicate / reserved-name / parameter checks and the return-type
// inference go through std's HashSet, whose SipHash + hashbrown code CBMC does not get through).
fn predeclare__contract<'ast, 'res>(r: &mut Resolver<'ast, 'res>, block: BlockRef<'ast>)
where
    'ast: 'ast,
    'res: 'res,
{
    let mut i = 0;
    while i < block.stmts.len() {
        if let Stmt::FunctionDef { name, name_span, params, body, .. } = block.stmts[i] {
            let scope = r.current_scope();
            let id = r.facts.push_function(name, params, Some(r.current_owner), scope, *name_span, body);
            r.function_scopes.last_mut().unwrap().push(FunctionSig { name, id, param_names: params.params, name_span, return_type: ValueType::Dynamic });
        }
        i += 1;
    }
}

fn error_count(r: &Resolver<'_, '_>) -> usize {
    let mut n = 0;
    let mut i = 0;
    while i < r.errors.diagnostics.len() {
        if r.errors.diagnostics[i].severity == Severity::Error {
            n += 1;
        }
        i += 1;
    }
    n
}

static E_TRUE: Expr<'static> = Expr::Bool(true, SP0);
static E_NUM: Expr<'static> = Expr::Number("1", SP0);
static E_STR: Expr<'static> = Expr::String { parts: StringParts::Static("s"), span: SP0 };
static E_NULL: Expr<'static> = Expr::Null(SP0);
static E_ARR: Expr<'static> = Expr::Array { elements: &[], span: SP0 };
static S_BREAK: Stmt<'static> = Stmt::Break { span: SP0 };
static S_CONT: Stmt<'static> = Stmt::Continue { span: SP0 };
static S_RET: Stmt<'static> = Stmt::Return { expr: None, span: SP0 };

// check_function_body(params, body)
//   ensures the body is checked with loop depth 0 (comot/next cannot leave the function) and inside the function (return legal);
//           on return in_loop, current_function, current_owner and the scope stacks are exactly what they were (frame)
// @harness property=C09,C06 fn=Resolver::check_function_body kind=bounded tier=quick cfg=release timeout=600 domain="bounded: body of one statement in {comot, next, return}; every enclosing loop depth 0..=3; enclosing function present or not"
#[kani::proof]
#[kani::unwind(6)]
#[kani::stub(Resolver::predeclare_block_functions, predeclare__contract)]
#[kani::stub(<crate::sys::unix::UnixVirtualMemory as crate::sys::VirtualMemory>::commit, bk::vm_commit_ok)]
fn check_function_body__contract() {
    function_body_case(0);
    function_body_case(1);
    function_body_case(2);
}

fn function_body_case(which: usize) {
    let arena = bk::mk_arena(1);
    static NOPARAMS: ParamList<'static> = ParamList { params: &[], param_spans: &[] };
    static BODY_STMTS: [&Stmt<'static>; 3] = [&S_BREAK, &S_CONT, &S_RET];
    let body: &'static Block<'static> = Box::leak(Box::new(Block { stmts: std::slice::from_ref(&BODY_STMTS[which]), span: SP0 }));
    let mut r = Resolver::new(arena);
    let root = r.facts.push_root_function(&EMPTY_BLOCK);
    let outer_scope = r.facts.push_scope(None, root, SP0);
    r.scope_stack.push(outer_scope);
    r.variable_scopes.push(Vec::new_in(arena));
    r.function_scopes.push(Vec::new_in(arena));
    let fid = r.facts.push_function("f", &NOPARAMS, Some(root), outer_scope, SP0, body);
    let depth: usize = kani::any();
    kani::assume(depth <= 3);
    let in_outer_fn: bool = kani::any();
    r.in_loop = depth;
    r.current_owner = root;
    r.current_function = if in_outer_fn { Some(root) } else { None };

    r.check_function_body(&NOPARAMS, body);

    let legal = which == 2; // only `return` is legal directly in a function body
    assert!((error_count(&r) == 0) == legal, "post: the body is checked with loop depth 0 and inside a function (comot/next rejected, return accepted), whatever encloses the definition");
    assert!(r.in_loop == depth, "frame: loop depth restored");
    assert!(r.current_function == if in_outer_fn { Some(root) } else { None }, "frame: enclosing function context restored");
    assert!(r.current_owner == root, "frame: owner restored");
    assert!(r.scope_stack.len() == 1 && r.variable_scopes.len() == 1 && r.function_scopes.len() == 1, "frame: scope stacks restored");
    let _ = fid;
    kani::cover!(depth == 3, "cover: function defined three loops deep");
    kani::cover!(!in_outer_fn, "cover: top-level function");
    std::mem::forget(r);
}

// comot / next outside any loop, return outside any function (check_stmt leaf rules).
// AST nodes are always CONCRETE in these harnesses (a symbolic choice of node makes CBMC explore every arm of the 400-line
// check_expr recursively and never finish); scalar resolver state is symbolic.
fn leaf_case(which: usize) {
    let arena = bk::mk_arena(1);
    static STMTS3: [&Stmt<'static>; 3] = [&S_BREAK, &S_CONT, &S_RET];
    let mut r = Resolver::new(arena);
    let root = r.facts.push_root_function(&EMPTY_BLOCK);
    let scope = r.facts.push_scope(None, root, SP0);
    r.scope_stack.push(scope);
    let depth: usize = kani::any();
    kani::assume(depth <= 3);
    let in_fn: bool = kani::any();
    r.in_loop = depth;
    r.current_owner = root;
    r.current_function = if in_fn { Some(root) } else { None };
    r.check_stmt(STMTS3[which]);
    let legal = if which < 2 { depth > 0 } else { in_fn };
    assert!((error_count(&r) == 0) == legal, "rule: comot/next legal iff loop depth > 0; return legal iff inside a function");
    assert!(r.errors.diagnostics.len() == if legal { 0 } else { 1 }, "rule: exactly one diagnostic per violation");
    kani::cover!(!legal, "cover: illegal placement rejected");
    kani::cover!(legal, "cover: legal placement accepted");
    std::mem::forget(r);
}

// @harness property=C09 fn=Resolver::check_stmt(Break|Continue)+check_return_stmt kind=proof tier=quick cfg=release timeout=600 domain="each of comot, next, return (concrete node); every loop depth 0..=3; inside a function or not"
#[kani::proof]
#[kani::unwind(6)]
#[kani::stub(<crate::sys::unix::UnixVirtualMemory as crate::sys::VirtualMemory>::commit, bk::vm_commit_ok)]
fn control_flow_statements__leaf_rules() {
    leaf_case(0);
    leaf_case(1);
    leaf_case(2);
}

// =====================================================================================================
// C04 / C09: Resolver::lookup_var_info / lookup_func -- innermost scope first; within a scope the LATEST variable declaration and
// the FIRST function definition (duplicates in one block are rejected by predeclare, so first == only)
// =====================================================================================================
fn leak_vec<T: 'static>(items: Vec<T>, arena: &'static Arena) -> Vec<T, &'static Arena> {
    let n = items.len();
    let b: &'static mut [T] = Box::leak(items.into_boxed_slice());
    unsafe { Vec::from_raw_parts_in(b.as_mut_ptr(), n, n, arena) }
}
static NAMES: [&str; 3] = ["a", "b", "ab"];
static SPAN0: Span = Range { start: 0, end: 0 };

// @harness property=C04,C09 fn=Resolver::lookup_var_info+lookup_func kind=bounded tier=quick cfg=release timeout=600 domain="bounded: 3 scopes x 2 entries; every assignment of the names {a, b, ab} to the 6 variable entries and the 6 function entries; every queried name incl. an undeclared one"
#[kani::proof]
#[kani::unwind(8)]
fn resolver_lookup__innermost_scope_wins() {
    let arena = bk::mk_arena(1);
    let mut r = Resolver::new(arena);
    let pick = || -> usize { let k: usize = kani::any(); kani::assume(k < 3); k };
    let vn: [usize; 6] = [pick(), pick(), pick(), pick(), pick(), pick()];
    let ventry = |k: usize| -> VariableScopeEntry<'static> { (NAMES[vn[k]], ValueType::Number, &SPAN0, LocalId(k as u32)) };
    r.variable_scopes = leak_vec(vec![
        leak_vec(vec![ventry(0), ventry(1)], arena),
        leak_vec(vec![ventry(2), ventry(3)], arena),
        leak_vec(vec![ventry(4), ventry(5)], arena),
    ], arena);
    let fnames: [usize; 6] = [pick(), pick(), pick(), pick(), pick(), pick()];
    let fentry = |k: usize| FunctionSig { name: NAMES[fnames[k]], id: FunctionId(k as u32), param_names: &[], name_span: &SPAN0, return_type: ValueType::Dynamic };
    r.function_scopes = leak_vec(vec![
        leak_vec(vec![fentry(0), fentry(1)], arena),
        leak_vec(vec![fentry(2), fentry(3)], arena),
        leak_vec(vec![fentry(4), fentry(5)], arena),
    ], arena);
    let q = pick();
    // variables: innermost scope, latest declaration
    let mut expect_v: Option<u32> = None;
    let mut k = 0;
    while k < 6 {
        if vn[k] == q {
            expect_v = Some(k as u32);
        }
        k += 1;
    }
    assert!(r.lookup_var_info(NAMES[q]).map(|(_, id)| id.0) == expect_v, "post: a variable name resolves to the innermost scope's latest declaration (None if undeclared)");
    assert!(r.lookup_var_info("zz").is_none(), "post: an undeclared variable is not found");
    // functions: innermost scope, first definition in that scope
    let mut expect_f: Option<u32> = None;
    let mut s = 0;
    while s < 3 {
        if fnames[2 * s] == q {
            expect_f = Some(2 * s as u32);
        } else if fnames[2 * s + 1] == q {
            expect_f = Some(2 * s as u32 + 1);
        }
        s += 1;
    }
    assert!(r.lookup_func(NAMES[q]).map(|sig| sig.id.0) == expect_f, "post: a function name resolves to the innermost block that defines it (inner definitions shadow outer ones)");
    assert!(r.lookup_func("zz").is_none(), "post: an undefined function is not found");
    kani::cover!(expect_v == Some(0), "cover: variable found only in the outermost scope");
    kani::cover!(expect_f == Some(5), "cover: function defined in the innermost block");
    kani::cover!(expect_v.is_none(), "cover: undeclared");
    std::mem::forget(r);
}
