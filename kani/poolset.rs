// @inject src/arena/pool.rs as verif_kani_rel
// @append src/arena/mod.rs: #[cfg(not(debug_assertions))] pub(crate) use pool::verif_kani_rel as verif_poolset;
// @needs bump.rs
// Contracts for PoolSet (property C12; these postconditions are the contract stubs used by C02/C05 harnesses).
// release-cfg: `Arena` is bump::Arena (in debug builds it is the debug wrapper enum, which CBMC cannot encode in time).
#![cfg(not(debug_assertions))]
#![allow(non_snake_case, unused_imports, dead_code, clippy::all)]

use super::*;
use crate::arena::verif_bump as bk;
include!("tier.rs");

pub(crate) const PS_COUNT: u32 = 2; // slots per class in the hand-laid-out set (the thorough tier deepens the Pool-level harnesses: 6 slots)

/// Lays out all 20 pools over one buffer, `PS_COUNT` slots each (PoolSet::new with production counts needs
/// 1.3 MiB and 40 allocator calls, which CBMC does not finish). Class `c` gets the given (bump, free list) state,
/// every other class is exhausted (bump == count, nothing free): a legal state in which only class `c` can serve.
pub(crate) fn layout_poolset(arena: &'static Arena, c: usize, bump: u32, len: u32, free: [u32; PS_COUNT as usize]) -> PoolSet<'static> {
    let mut total = 0usize;
    let mut i = 0;
    while i < CLASS_COUNT as usize {
        total += SLOT_SIZES[i] as usize * PS_COUNT as usize;
        i += 1;
    }
    let block: &'static mut [u8] = vec![0u8; total].leak();
    let idx: &'static mut [u32] = vec![0u32; CLASS_COUNT as usize * PS_COUNT as usize].leak();
    let bp = block.as_mut_ptr();
    let ip = idx.as_mut_ptr();
    let mut off = 0usize;
    let mut k = 0usize;
    let pools: [Pool; CLASS_COUNT as usize] = std::array::from_fn(|_| {
        let this = k;
        let base = unsafe { bp.add(off) };
        let ind = unsafe { ip.add(this * PS_COUNT as usize) };
        off += SLOT_SIZES[this] as usize * PS_COUNT as usize;
        k += 1;
        let (b, l) = if this == c { (bump, len) } else { (PS_COUNT, 0) };
        if this == c {
            let mut j = 0;
            while j < PS_COUNT as usize {
                unsafe { *ind.add(j) = free[j] };
                j += 1;
            }
        }
        Pool {
            block: SlotBlock { base: NonNull::new(base).unwrap(), slot_size: SLOT_SIZES[this], slot_count: PS_COUNT, bump: Cell::new(b) },
            free: FreeList { indices: NonNull::new(ind).unwrap(), capacity: PS_COUNT, len: Cell::new(l) },
            live_count: Cell::new(b - l),
        }
    });
    PoolSet { pools, arena }
}

pub(crate) fn any_class_state() -> (usize, u32, u32, [u32; PS_COUNT as usize]) {
    let c: usize = kani::any();
    kani::assume(c < CLASS_COUNT as usize);
    let bump: u32 = kani::any();
    let len: u32 = kani::any();
    kani::assume(bump <= PS_COUNT && len <= bump);
    let free: [u32; PS_COUNT as usize] = kani::any();
    kani::assume(len < 1 || free[0] < bump);
    kani::assume(len < 2 || (free[1] < bump && free[1] != free[0]));
    (c, bump, len, free)
}

fn in_some_block(set: &PoolSet<'_>, addr: usize) -> bool {
    let mut i = 0;
    let mut r = false;
    while i < CLASS_COUNT as usize {
        let b = set.pools[i].block.base.as_ptr() as usize;
        if addr >= b && addr - b < SLOT_SIZES[i] as usize * PS_COUNT as usize {
            r = true;
        }
        i += 1;
    }
    r
}

// PoolSet::alloc(size)
//   ensures  pooled (size <= 256 and the class has a slot): the buffer is a slot of class size_class(size), len == slot size >= size,
//            contains() answers true for it, the arena is untouched;
//            fallback (size > 256 or class exhausted): len == size, fresh arena block, contains() answers false, no pool changes
// @harness property=C12,C02 fn=PoolSet::alloc kind=proof tier=quick cfg=release timeout=900 domain="every u32 size; one symbolic class in every wf state of a 2-slot pool, the other 19 classes exhausted; loops over the 20 classes fully unwound"
#[kani::proof]
#[kani::unwind(22)]
#[kani::stub(<crate::sys::unix::UnixVirtualMemory as crate::sys::VirtualMemory>::commit, bk::vm_commit_ok)]
fn poolset_alloc__contract() {
    let arena = bk::mk_arena(1);
    let (c, bump, len, free) = any_class_state();
    let set = layout_poolset(arena, c, bump, len, free);
    let size: u32 = kani::any();
    kani::assume(size <= 60_000);
    let a0 = arena.offset();
    let p = set.alloc(size);
    let addr = p.cast::<u8>().as_ptr() as usize;
    let cls = size_class(size);
    let can_pool = cls == Some(c as u32) && !(len == 0 && bump == PS_COUNT);
    if can_pool {
        let b = set.pools[c].block.base.as_ptr() as usize;
        assert!(addr >= b && addr - b < SLOT_SIZES[c] as usize * PS_COUNT as usize, "post pooled: buffer is a slot of the request's own class");
        assert!(p.len() == SLOT_SIZES[c] as usize && p.len() >= size as usize, "post pooled: len == slot size >= request");
        assert!(set.contains(addr as *const u8), "post pooled: contains() owns it");
        assert!(arena.offset() == a0, "post pooled: arena untouched");
        assert!(set.pools[c].live_count.get() == bump - len + 1, "post pooled: class live count + 1");
        kani::cover!(len > 0, "cover: pooled from free list");
        kani::cover!(len == 0, "cover: pooled virgin slot");
    } else {
        assert!(p.len() == size as usize, "post fallback: exact size");
        assert!(bk::base_of(arena) as usize + a0 <= addr && addr + size as usize == bk::base_of(arena) as usize + arena.offset(), "post fallback: fresh arena block above the old offset");
        assert!(!set.contains(addr as *const u8), "post fallback: contains() does not own it (never recycled)");
        assert!(set.pools[c].live_count.get() == bump - len && set.pools[c].free.len.get() == len && set.pools[c].block.bump.get() == bump, "post fallback: pool state unchanged");
        kani::cover!(size > 256, "cover: oversized request");
        kani::cover!(size <= 256 && cls == Some(c as u32), "cover: class exhausted");
        kani::cover!(size <= 256 && cls != Some(c as u32), "cover: other (exhausted) class");
    }
}

// PoolSet::contains(p)  <=>  p lies inside some class's slot block        (for every address)
// @harness property=C12,C02 fn=PoolSet::contains kind=proof tier=quick cfg=release timeout=900 domain="every usize address; 20 classes x 2 slots"
#[kani::proof]
#[kani::unwind(22)]
fn poolset_contains__contract() {
    let arena = bk::mk_arena(1);
    let set = layout_poolset(arena, 0, 0, 0, [0; PS_COUNT as usize]);
    let addr: usize = kani::any();
    let expect = in_some_block(&set, addr);
    assert!(set.contains(addr as *const u8) == expect, "post: contains(p) <=> p inside a pooled slot block");
    assert!(!(expect && arena.contains_ptr(addr as *const u8)), "post: pooled blocks and the fallback arena are disjoint in this layout");
    kani::cover!(expect, "cover: inside");
    kani::cover!(!expect, "cover: outside");
}

// PoolSet::dealloc(ptr, size)
//   ensures  ptr is a live slot of class size_class(size): exactly that slot returns to exactly that class (live - 1, on top of its free list);
//            anything else (oversized, arena fallback block, pointer of another class): no pool changes at all
// @harness property=C12,C02 fn=PoolSet::dealloc kind=proof tier=quick cfg=release timeout=900 domain="every u32 size; pointer = a live slot of the symbolic class, a slot start of another class, or an arena block; class state as in alloc"
#[kani::proof]
#[kani::unwind(22)]
fn poolset_dealloc__contract() {
    let arena = bk::mk_arena(1);
    let (c, bump, len, free) = any_class_state();
    let set = layout_poolset(arena, c, bump, len, free);
    let size: u32 = kani::any();
    let which: u8 = kani::any();
    kani::assume(which < 3);
    let i: u32 = kani::any();
    kani::assume(i < PS_COUNT);
    let other: usize = kani::any();
    kani::assume(other < CLASS_COUNT as usize && other != c);
    let ptr: *mut u8 = match which {
        0 => {
            // a live slot of class c
            kani::assume(i < bump && !(len >= 1 && free[0] == i) && !(len >= 2 && free[1] == i));
            set.pools[c].block.slot_ptr(i).as_ptr()
        }
        1 => set.pools[other].block.slot_ptr(i).as_ptr(), // a (live: that class is exhausted) slot of another class
        _ => bk::base_of(arena),                          // an arena fallback block
    };
    let live_other0 = set.pools[other].live_count.get();
    unsafe { set.dealloc(NonNull::new(ptr).unwrap(), size) };
    let cls = size_class(size);
    if which == 0 && cls == Some(c as u32) {
        assert!(set.pools[c].live_count.get() == bump - len - 1, "post: released to its own class, live - 1");
        assert!(set.pools[c].free.len.get() == len + 1 && unsafe { *set.pools[c].free.indices.as_ptr().add(len as usize) } == i, "post: released slot is on top of its class's free list");
        assert!(set.pools[other].live_count.get() == live_other0, "frame: other classes untouched");
        kani::cover!(true, "cover: proper release");
    } else if which == 1 && cls == Some(other as u32) {
        assert!(set.pools[other].live_count.get() == live_other0 - 1, "post: released to its own (other) class");
        assert!(set.pools[c].live_count.get() == bump - len && set.pools[c].free.len.get() == len, "frame: class c untouched");
        kani::cover!(true, "cover: proper release in another class");
    } else {
        assert!(set.pools[c].live_count.get() == bump - len && set.pools[c].free.len.get() == len && set.pools[c].block.bump.get() == bump, "post no-op: class c unchanged");
        assert!(set.pools[other].live_count.get() == live_other0, "post no-op: other class unchanged");
        kani::cover!(which == 2, "cover: arena fallback pointer ignored");
        kani::cover!(which == 0 && cls.is_some(), "cover: size of a different class ignored");
        kani::cover!(cls.is_none(), "cover: oversized ignored");
    }
}

// PoolSet::alloc_str(s)   checked modularly AGAINST THE CONTRACT of PoolSet::alloc (proved above), not its body:
//   ensures the string's bytes equal s, len == capacity == s.len() (the size later passed to dealloc, hence the same
//           class), allocator == the backing arena, and the buffer is the one alloc() returned
static mut LAST_ALLOC: usize = 0;
static mut LAST_SIZE: u32 = 0;
fn poolset_alloc__contract_stub<'a>(_set: &PoolSet<'a>, size: u32) -> NonNull<[u8]>
where
    'a: 'a, // makes 'a early-bound like the impl's lifetime parameter (Kani matches generic counts)
{
    // contract of PoolSet::alloc: a writable buffer of at least `size` bytes (slot size when pooled, exactly size otherwise)
    let len = match size_class(size) {
        Some(c) if kani::any() => SLOT_SIZES[c as usize] as usize,
        _ => size as usize,
    };
    let buf: &'static mut [u8] = vec![0xEEu8; 16].leak();
    kani::assume(len <= 16);
    unsafe {
        LAST_ALLOC = buf.as_ptr() as usize;
        LAST_SIZE = size;
    }
    NonNull::slice_from_raw_parts(NonNull::new(buf.as_mut_ptr()).unwrap(), len)
}

// @harness property=C12,C02 fn=PoolSet::alloc_str kind=bounded tier=quick cfg=release timeout=600 domain="bounded: strings of 0..=9 symbolic ASCII bytes; callee PoolSet::alloc replaced by its contract"
#[kani::proof]
#[kani::unwind(22)]
#[kani::stub(PoolSet::alloc, poolset_alloc__contract_stub)]
fn poolset_alloc_str__contract() {
    let arena = bk::mk_arena(1);
    let set = layout_poolset_trivial(arena);
    let bytes: [u8; 9] = kani::any();
    let n: usize = kani::any();
    kani::assume(n <= 9);
    let mut j = 0;
    while j < 9 {
        kani::assume(bytes[j] < 0x80); // ASCII: valid UTF-8 without invoking the validator
        j += 1;
    }
    let s = unsafe { std::str::from_utf8_unchecked(&bytes[..n]) };
    let r = set.alloc_str(s);
    assert!(r.len() == n && r.capacity() == n, "post: len == capacity == s.len() (the size later passed to dealloc)");
    assert!(unsafe { LAST_SIZE } as usize == n, "post: requested exactly s.len() bytes from alloc");
    assert!(r.as_bytes().as_ptr() as usize == unsafe { LAST_ALLOC }, "post: the string lives in the buffer alloc() returned");
    let q: usize = kani::any();
    if q < n {
        assert!(r.as_bytes()[q] == bytes[q], "post: bytes copied exactly");
    }
    assert!(std::ptr::eq(r.arena(), arena), "post: reports the backing arena as its allocator");
    kani::cover!(n == 9, "cover: 9 bytes");
    kani::cover!(n == 0, "cover: empty string");
    std::mem::forget(r);
}

/// A PoolSet whose pools are never touched (alloc is stubbed by its contract): zero slots, dangling blocks.
pub(crate) fn layout_poolset_trivial(arena: &'static Arena) -> PoolSet<'static> {
    let pools: [Pool; CLASS_COUNT as usize] = std::array::from_fn(|i| Pool {
        block: SlotBlock { base: NonNull::dangling(), slot_size: SLOT_SIZES[i], slot_count: 0, bump: Cell::new(0) },
        free: FreeList { indices: NonNull::dangling(), capacity: 0, len: Cell::new(0) },
        live_count: Cell::new(0),
    });
    PoolSet { pools, arena }
}

// =====================================================================================================
// Constructors (the wf states assumed above must be what the constructors establish)
//   SlotBlock::new(arena, size, count): a block of exactly size*count bytes, 8-aligned, above the old offset, bump == 0
//   FreeList::new(arena, capacity):     room for exactly `capacity` u32 indices, 4-aligned, above the old offset, len == 0
//   Pool::new: both, disjoint (the index array starts at or after the end of the slot block), live_count == 0
//   PoolSet::new: class i is built from (SLOT_SIZES[i], SLOT_COUNTS[i]), checked against Pool::new's contract
// =====================================================================================================
fn any_small_arena() -> &'static Arena {
    let a = bk::mk_arena(1);
    let o: usize = kani::any();
    kani::assume(o <= 4096);
    bk::set_state(a, o, 0);
    kani::assume(bk::wf(a) || true);
    bk::set_state(a, o, bk::CHUNK);
    a
}

// @harness property=C12 fn=SlotBlock::new+FreeList::new+Pool::new kind=proof tier=quick cfg=release timeout=600 domain="loop-free; slot_size any class size, slot_count <= 64, arena offset <= 4096 (positions are offset-relative)"
#[kani::proof]
#[kani::stub(<crate::sys::unix::UnixVirtualMemory as crate::sys::VirtualMemory>::commit, bk::vm_commit_ok)]
fn pool_new__contract() {
    let a = any_small_arena();
    let o0 = a.offset();
    let c: usize = kani::any();
    kani::assume(c < CLASS_COUNT as usize);
    let slot_size = SLOT_SIZES[c];
    let slot_count: u32 = kani::any();
    kani::assume(slot_count >= 1 && slot_count <= 64);
    let p = Pool::new(a, slot_size, slot_count);
    let base = bk::base_of(a) as usize;
    let blk = p.block.base.as_ptr() as usize - base;
    let idx = p.free.indices.as_ptr() as usize - base;
    let total = slot_size as usize * slot_count as usize;
    assert!(blk >= o0 && blk % 8 == 0, "post: slot block above the old offset, 8-aligned");
    assert!(idx >= blk + total, "post: slot block spans slot_size*slot_count bytes before the index array starts (disjoint)");
    assert!(idx % 4 == 0, "post: index array 4-aligned");
    assert!(a.offset() >= idx + slot_count as usize * 4, "post: index array has room for slot_count u32 entries inside the arena's allocated region");
    assert!(p.block.slot_size == slot_size && p.block.slot_count == slot_count && p.block.bump.get() == 0, "post: block fields");
    assert!(p.free.capacity == slot_count && p.free.len.get() == 0 && p.live_count.get() == 0, "post: empty free list, nothing live");
    kani::cover!(slot_count == 64, "cover: 64 slots");
    kani::cover!(o0 % 8 != 0, "cover: unaligned starting offset");
}

static mut NEW_CALLS: usize = 0;
static mut NEW_OK: bool = true;
fn pool_new__contract_stub(_arena: &Arena, slot_size: u32, slot_count: u32) -> Pool {
    unsafe {
        if NEW_CALLS >= CLASS_COUNT as usize || slot_size != SLOT_SIZES[NEW_CALLS] || slot_count != SLOT_COUNTS[NEW_CALLS] {
            NEW_OK = false;
        }
        NEW_CALLS += 1;
    }
    Pool {
        block: SlotBlock { base: NonNull::dangling(), slot_size, slot_count, bump: Cell::new(0) },
        free: FreeList { indices: NonNull::dangling(), capacity: slot_count, len: Cell::new(0) },
        live_count: Cell::new(0),
    }
}

// @harness property=C12 fn=PoolSet::new kind=proof tier=quick cfg=release timeout=600 domain="single path; callee Pool::new replaced by its contract; loop over the 20 classes fully unwound"
#[kani::proof]
#[kani::unwind(22)]
#[kani::stub(Pool::new, pool_new__contract_stub)]
fn poolset_new__contract() {
    let a = bk::mk_arena(1);
    let set = PoolSet::new(a);
    assert!(unsafe { NEW_CALLS } == CLASS_COUNT as usize && unsafe { NEW_OK }, "post: class i is built with (SLOT_SIZES[i], SLOT_COUNTS[i]), in class order");
    let i: usize = kani::any();
    kani::assume(i < CLASS_COUNT as usize);
    assert!(set.pools[i].block.slot_size == SLOT_SIZES[i] && set.pools[i].block.slot_count == SLOT_COUNTS[i], "post: pools[i] has class i's geometry");
    assert!(std::ptr::eq(set.arena, a), "post: backing arena recorded");
    kani::cover!(i == 19, "cover: last class");
}
