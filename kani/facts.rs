// @inject src/analysis/facts.rs
// @needs bump.rs
// Contracts for src/analysis/facts.rs (property C04): the sorted pointer tables behind the runtime's id-directed lookups.
#![cfg(not(debug_assertions))]
#![allow(non_snake_case, unused_imports, dead_code, clippy::all)]

use super::*;
use crate::arena::verif_bump as bk;

const SP: Span = std::range::Range { start: 0, end: 0 };

fn leak_vec<T: 'static>(items: Vec<T>, arena: &'static Arena) -> Vec<T, &'static Arena> {
    let n = items.len();
    let b: &'static mut [T] = Box::leak(items.into_boxed_slice());
    unsafe { Vec::from_raw_parts_in(b.as_mut_ptr(), n, n, arena) }
}

// finalize_pointer_bindings + expr_local / string_segment_local / stmt_local:
//   after finalize, lookup(k) == the local recorded for k, and None for a key that was never recorded -- for EVERY recording order
//   (the tables are sorted by exactly the key the binary search uses)
// @harness property=C04 fn=ProgramFacts::finalize_pointer_bindings+expr_local+stmt_local+string_segment_local kind=bounded tier=quick cfg=release timeout=600 domain="bounded: 3 recorded expression nodes + 1 unrecorded, 3 statements, 3 string segments (2 of them in one expression); every recording order (6 permutations, symbolic); symbolic local ids"
#[kani::proof]
#[kani::unwind(8)]
fn pointer_tables__lookup_returns_recorded_binding() {
    let arena = bk::mk_arena(1);
    let nodes: &'static [Expr<'static>; 4] = Box::leak(Box::new([Expr::Null(SP), Expr::Null(SP), Expr::Null(SP), Expr::Null(SP)]));
    let stmts: &'static [Stmt<'static>; 3] = Box::leak(Box::new([Stmt::Break { span: SP }, Stmt::Break { span: SP }, Stmt::Break { span: SP }]));
    let ids: [u32; 3] = kani::any();
    let perm: u8 = kani::any();
    kani::assume(perm < 6);
    let order: [usize; 3] = match perm {
        0 => [0, 1, 2],
        1 => [0, 2, 1],
        2 => [1, 0, 2],
        3 => [1, 2, 0],
        4 => [2, 0, 1],
        _ => [2, 1, 0],
    };
    let mut facts = ProgramFacts::new(arena);
    let e = |k: usize| ExprLocalBinding { expr: &nodes[order[k]], local: LocalId(ids[order[k]]) };
    facts.expr_locals = leak_vec(vec![e(0), e(1), e(2)], arena);
    let s = |k: usize| StmtLocalBinding { stmt: &stmts[order[k]], local: LocalId(ids[order[k]]) };
    facts.stmt_locals = leak_vec(vec![s(0), s(1), s(2)], arena);
    // segments (node 0, segment 2), (node 1, segment 0), (node 1, segment 1): ordering by (node, segment) and by (segment, node) differ
    let segs = [(0usize, 2u32), (1, 0), (1, 1)];
    let g = |k: usize| StringSegmentLocalBinding { expr: &nodes[segs[order[k]].0], segment_index: segs[order[k]].1, local: LocalId(ids[order[k]]) };
    facts.string_segment_locals = leak_vec(vec![g(0), g(1), g(2)], arena);

    facts.finalize_pointer_bindings();

    let q: usize = kani::any();
    kani::assume(q < 3);
    assert!(facts.expr_local(&nodes[q]) == Some(LocalId(ids[q])), "post: expr_local returns the binding recorded for that node");
    assert!(facts.expr_local(&nodes[3]).is_none(), "post: expr_local is None for an unrecorded node");
    assert!(facts.stmt_local(&stmts[q]) == Some(LocalId(ids[q])), "post: stmt_local returns the binding recorded for that statement");
    assert!(facts.string_segment_local(&nodes[segs[q].0], segs[q].1) == Some(LocalId(ids[q])), "post: string_segment_local returns the binding recorded for (node, segment)");
    assert!(facts.string_segment_local(&nodes[0], 0).is_none() && facts.string_segment_local(&nodes[2], 0).is_none() && facts.string_segment_local(&nodes[1], 2).is_none(), "post: string_segment_local is None for an unrecorded (node, segment)");
    kani::cover!(perm == 5, "cover: reverse recording order");
    std::mem::forget(facts);
}
